#!/usr/bin/env python3
"""Binding self-test (DESIGN 12.7): every trace specification must REJECT a trace in which one recorded
field was corrupted, and accept the original.  Not a registered check; run by hand: python3 tools/selftest.py"""
import copy, json, os, sys
sys.path.insert(0, "/verif"); sys.path.insert(0, "/verif/lib")
import vlib
from checks import common

W = os.path.join(vlib.WORK, "selftest")
os.makedirs(W, exist_ok=True)
rel = vlib.build_harness("release")
results = []

def load(p): return [json.loads(x) for x in open(p) if x.strip()]
def dump(p, evs): open(p, "w").write("".join(json.dumps(e) + "\n" for e in evs))

def judged(module, setno, evs, name):
    p = os.path.join(W, name + ".ndjson"); dump(p, evs)
    chk = vlib.Check("SELFTEST", "other", "quick", 1); chk.workdir = os.path.join(W, name); os.makedirs(chk.workdir, exist_ok=True)
    if module == "TraceF":
        n, mism = common.validate_f(chk, {setno: p}, nproc=1, chunks_per_set=1, key_of=lambda m: "x")
        return len(mism)
    mism, mags = common.validate_judged(chk, os.path.join(common.TRACE_DIR, module + ".tla"), [(setno, p)], nproc=1)
    return len(mism) + len(mags)

def api(evs, name):
    p = os.path.join(W, name + ".ndjson"); dump(p, evs)
    r = vlib.tlc(os.path.join(common.TRACE_DIR, "TraceAPI.tla"), common.API_CFG, os.path.join(W, name), env={"TRACE": p}, workers=1)
    return 0 if any(l.startswith('<<"TRACE_ACCEPTED"') for l in r["prints"]) else 1

def case(spec, what, good, bad):
    results.append((spec, what, good, bad))
    print("%-13s %-62s original: %s   corrupted: %s" % (spec, what, "accepted" if good == 0 else "REJECTED(!)", "rejected" if bad > 0 else "ACCEPTED(!)"))

# TraceF
vlib.drive(rel, "keygen", sets=44, nfull=1, nlite=1, out=W); vlib.drive(rel, "verify", sets=44, nacc=1, nrand=0, stress=0, out=W)
k = load(os.path.join(W, "keygen_44.ndjson"))[:3]; v = [e for e in load(os.path.join(W, "verify_44.ndjson")) if e.get("res") is True][:1]
bk = copy.deepcopy(k); bk[0]["pk"][40] ^= 1
case("TraceF", "one bit of a recorded public key (KeyGen)", judged("TraceF", 44, k, "f_k"), judged("TraceF", 44, bk, "f_kb"))
bv = copy.deepcopy(v); bv[0]["res"] = False
case("TraceF", "recorded verdict of an accepting Verify flipped", judged("TraceF", 44, v, "f_v"), judged("TraceF", 44, bv, "f_vb"))
# TraceAPI
vlib.drive(rel, "api", scenario="honest", sets=44, nseeds=1, nmsgs=1, out=W)
a = load(os.path.join(W, "api_honest_44.ndjson"))
i = next(j for j, e in enumerate(a) if e["ev"] == "Verify" and e["res"]); ba = copy.deepcopy(a); ba[i]["res"] = False
case("TraceAPI", "verdict of an honest Verify flipped", api(a, "a"), api(ba, "a_b"))
i = next(j for j, e in enumerate(a) if e["ev"] == "Sign"); ba = copy.deepcopy(a); ba[i]["rnglog"] = ba[i]["rnglog"] * 2
case("TraceAPI", "a second RNG request inserted into a Sign log", 0, api(ba, "a_c"))
ba = [e for e in a if e["ev"] != "Derive"]
case("TraceAPI", "the Derive line (hook) removed: later uses of the handle", 0, api(ba, "a_d"))
i = next((j for j, e in enumerate(a) if e["ev"] == "SignInternal" and any(x["ev"] == "Sign" and x.get("mp") == e["mp"] and x.get("draw") == e["draw"] for x in a)), None)
if i is not None:
    ba = copy.deepcopy(a); ba[i]["sig"] = "x00"
    case("TraceAPI", "Sign_internal(FormatMsg(..), rnd) made to differ from Sign(.., rnd)", 0, api(ba, "a_e"))
i = next(j for j, e in enumerate(a) if e["ev"] == "VerifyInternal" and e["res"]); ba = copy.deepcopy(a); ba[i]["res"] = False
case("TraceAPI", "internal verdict on an externally issued signature flipped", 0, api(ba, "a_f"))
i = next(j for j, e in enumerate(a) if e["ev"] == "Verify" and e["res"]); ba = copy.deepcopy(a); ba[i]["mp"] = "x00"
case("TraceAPI", "formatted message of a Verify replaced (not the function of (mode, ctx, M))", 0, api(ba, "a_g"))
# TraceCodec
chk = vlib.build_harness("checked")
vlib.drive(chk, "codec", sets=44, out=W)
c = [e for e in load(os.path.join(W, "codec_44.ndjson")) if e["ev"] == "HintUnpack"][:40]
bc = copy.deepcopy(c); j = next(j for j, e in enumerate(bc) if e["ok"]); bc[j]["ok"] = False
case("TraceCodec", "ok flag of an accepted hint section flipped", judged("TraceCodec", 44, c, "c"), judged("TraceCodec", 44, bc, "c_b"))
# TraceRing
vlib.drive(chk, "ring", sets=44, out=W)
r = [e for e in load(os.path.join(W, "ring_generic.ndjson")) if e["ev"] in ("Ntt", "Zeta")][:6]
br = copy.deepcopy(r); j = next(j for j, e in enumerate(br) if e["ev"] == "Ntt"); br[j]["out"][17] += 1
case("TraceRing", "one output coefficient of a forward transform + 1", judged("TraceRing", 44, r, "r"), judged("TraceRing", 44, br, "r_b"))
m = [e for e in load(os.path.join(W, "ring_44.ndjson")) if e["ev"] == "Mag"][:2]
bm = copy.deepcopy(m)
for h in bm[0]["events"]:
    if h[0] == "inv_ntt_in": h[2] = h[1]          # pretend the copy-in did not reduce
case("TraceRing", "copy-in magnitude replaced by the unreduced one", judged("TraceRing", 44, m, "m"), judged("TraceRing", 44, bm, "m_b"))
# TraceScalar
vlib.drive(rel, "keygen", sets=44, nfull=0, nlite=0, out=W)
s = [dict(ev="Scalar", fn="decompose", g2=95232, eta=2, x=8285185, y=0, got=[0, -95232]), dict(ev="Scalar", fn="power2round", g2=95232, eta=2, x=4097, y=0, got=[1, -4095])]
bs = copy.deepcopy(s); bs[0]["got"] = [44, -95231]
case("TraceScalar", "Decompose corner returned as (44, -95231)", judged("TraceScalar", 44, s, "s"), judged("TraceScalar", 44, bs, "s_b"))
ok = all(g == 0 and b > 0 for _, _, g, b in results)
print("SELFTEST", "ok" if ok else "FAILED")
sys.exit(0 if ok else 1)
