#!/bin/bash
# usage: seedconfirm.sh <worktree> <seed-dir>...   -- confirms each seeded change independently:
# patch applies, full test suite passes with it, demo fails with it, demo passes without it.
W=$1; shift
for D in "$@"; do
  id=$(basename $D)
  git -C $W checkout -q -- . ; rm -f $W/tests/seed_demo.rs
  res="id=$id"
  if ! git -C $W apply --check $D/patch.diff 2>/dev/null; then echo "$res apply=FAIL"; continue; fi
  git -C $W apply $D/patch.diff
  if (cd $W && cargo build --offline --features dudect 2>&1 | grep -q "^error\|^warning"); then res="$res build_dudect=FAIL"; else res="$res build_dudect=ok"; fi
  t=$(cd $W && cargo test --workspace --no-fail-fast --offline 2>&1 | grep -E "^test result" | awk '{p+=$4; f+=$6} END {print p"/"f}')
  res="$res tests_pass/fail=$t"
  cp $D/demo.rs $W/tests/seed_demo.rs
  if (cd $W && timeout 1200 cargo test --offline --features verif-hooks --test seed_demo >/dev/null 2>&1); then res="$res demo_with_patch=PASSES(bad)"; else res="$res demo_with_patch=fails(ok)"; fi
  git -C $W checkout -q -- .
  if (cd $W && timeout 1200 cargo test --offline --features verif-hooks --test seed_demo >/dev/null 2>&1); then res="$res demo_without=passes(ok)"; else res="$res demo_without=FAILS(bad)"; fi
  rm -f $W/tests/seed_demo.rs
  echo "$res"
done
