#!/bin/bash
# usage: SNAPID=S tools/soak.sh <seed> [<check>...]  -- runs quick tiers with another VERIF_SEED from a private snapshot of /verif against a
# private copy of /repo's HEAD (no seeded change): every run must exit 0.  Appends to work/seedlogs/soak.jsonl.
SEED=$1; shift
CHECKS=${@:-C01 C02 C03 C04 C05 C06 C07 C08 C09 C10 C11 C12 C13 C14 C15 C16 C17 C18}
SNAP=/tmp/vsnap${SNAPID:-S}; RS=/tmp/rsnap${SNAPID:-S}
mkdir -p $SNAP && rsync -a --delete --exclude work --exclude 'harness/target*' --exclude .git --exclude replays /verif/ $SNAP/
rm -rf $RS && git -C /repo worktree prune && git -C /repo worktree add -q --detach $RS HEAD && cp /repo/Cargo.lock $RS/
sed -i "s#\"/repo\"#\"$RS\"#" $SNAP/lib/vlib.py $SNAP/harness/Cargo.toml $SNAP/harness/cfgprobe/Cargo.toml $SNAP/harness/nostdprobe/Cargo.toml
sed -i "s#/repo/#$RS/#g" $SNAP/bin/setup
(cd $SNAP && bin/setup > /tmp/vsnap_setup${SNAPID:-S}.log 2>&1)
for c in $CHECKS; do
  t0=$(date +%s)
  (cd $SNAP && VERIF_SEED=$SEED bin/check $c --tier ${TIER:-quick} > /tmp/soak_${SNAPID:-S}_$c.log 2>&1); rc=$?
  echo "{\"seed\": $SEED, \"check\": \"$c\", \"exit\": $rc, \"wall\": $(( $(date +%s) - t0 )), \"tail\": $(tail -3 /tmp/soak_${SNAPID:-S}_$c.log | python3 -c 'import sys,json;print(json.dumps(sys.stdin.read()[-400:]))')}" | tee -a /verif/work/seedlogs/soak.jsonl
done
echo ALLDONE
