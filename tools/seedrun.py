#!/usr/bin/env python3
"""seedrun.py <seed-dir> <CHECK>[,<CHECK>...] [--tier quick]: apply a seeded change to /repo, run the
checks, undo the change.  Appends one JSON line per (seed, check) to work/seedlogs/detect.jsonl."""
import json, os, subprocess, sys, time
seed, checks = sys.argv[1], sys.argv[2].split(",")
tier = sys.argv[4] if len(sys.argv) > 4 and sys.argv[3] == "--tier" else "quick"
V = os.environ.get("VSNAP", "/verif")
R = os.environ.get("RSNAP", "/repo")   # the tree the snapshot's checks build from
def sh(*a, **k): return subprocess.run(a, stdout=subprocess.PIPE, stderr=subprocess.STDOUT, text=True, **k)
assert sh("git", "-C", R, "status", "--porcelain", "--untracked-files=no").stdout.strip() == "", R + " not clean"
patch = os.path.join(seed, "patch.diff") if os.path.isdir(seed) else seed
r = sh("git", "-C", R, "apply", patch)
assert r.returncode == 0, r.stdout
try:
    for c in checks:
        t0 = time.time()
        p = sh(os.path.join(V, "bin/check"), c, "--tier", tier, cwd=V)
        viol = [l for l in p.stdout.splitlines() if l.startswith("VIOLATION")]
        what = [l.strip() for l in p.stdout.splitlines() if l.startswith("  ")][:2]
        rec = dict(seed=os.path.basename(seed.rstrip("/")), check=c, tier=tier, exit=p.returncode, violations=len(viol), first=(what[0][:300] if what else ""), wall=round(time.time()-t0))
        if p.returncode == 2: rec["tool_error"] = p.stdout[-600:]
        print(json.dumps(rec)); sys.stdout.flush()
        os.makedirs("/verif/work/seedlogs", exist_ok=True)
        open("/verif/work/seedlogs/detect.jsonl", "a").write(json.dumps(rec) + "\n")
finally:
    sh("git", "-C", R, "checkout", "--", ".")
    subprocess.run(["rm", "-rf", os.path.join(V, "replays")])
