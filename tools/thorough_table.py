#!/usr/bin/env python3
"""Prints a markdown table of the thorough-tier timings from a `vp run` log (lines 'Cxx thorough: ok in Ns' / 'rc=N')."""
import re, sys
log = open(sys.argv[1]).read()
rows = []
for m in re.finditer(r"=== (C\d\d) [\d:]+\n(.*?)(?==== |\Z)", log, re.S):
    pid, body = m.group(1), m.group(2)
    t = re.search(r"thorough: (\w+) in (\d+)s", body)
    rc = re.search(r"rc=(\d+)", body)
    kf = len(re.findall(r"KNOWN-FINDING", body))
    rows.append((pid, t.group(1) if t else "?", int(t.group(2)) if t else -1, rc.group(1) if rc else "?", kf))
print("| check | result | wall (s) | exit | known findings printed |\n|---|---|---|---|---|")
for r in sorted(rows):
    print("| %s | %s | %d | %s | %d |" % r)
print("\ntotal: %d s" % sum(r[2] for r in rows if r[2] > 0))
