#!/usr/bin/env python3
"""Prints N seedbatch command lines that together re-run every seeded change (and every fix revert) against the quick tier of
the check(s) that must report it.  usage: regress.py <nstreams>"""
import glob, json, os, sys
n = int(sys.argv[1]) if len(sys.argv) > 1 else 3
cost = {"C01": 330, "C02": 100, "C03": 170, "C04": 60, "C05": 150, "C06": 45, "C07": 90, "C08": 45, "C09": 110, "C10": 50, "C11": 90, "C12": 110, "C13": 90, "C14": 330, "C15": 120, "C16": 65, "C17": 110, "C18": 75}
items = []
for d in sorted(glob.glob("/verif/seeded/*-?")):
    m = json.load(open(os.path.join(d, "meta.json")))
    sid = os.path.basename(d)
    if sid.startswith("C"):
        checks = [sid.split("-")[0]]
    else:
        checks = m.get("detected_by", [])[:1]
    if checks:
        items.append((d, checks))
for f, checks in (("F1-bit_unpack-range.revert.diff", ["C10", "C13"]), ("F2-inv_ntt-copyin.revert.diff", ["C18", "C13", "C02"]), ("F3-t0-assert.revert.diff", ["C13"]), ("F6-hint-count-branch.revert.diff", ["C14"])):
    items.append(("/verif/seeded/fix-reverts/" + f, checks))
items.sort(key=lambda it: -sum(cost[c] for c in it[1]))
streams = [[] for _ in range(n)]
load = [0] * n
for it in items:
    i = load.index(min(load))
    streams[i].append(it)
    load[i] += sum(cost[c] for c in it[1]) + 15
for i, st in enumerate(streams):
    print("SNAPID=R%d nohup tools/seedbatch.sh %s > work/seedlogs/regress_R%d.log 2>&1 &" % (i, " ".join('"%s %s"' % (d, ",".join(c)) for d, c in st), i))
print("# estimated minutes per stream:", [round(x / 60) for x in load], file=sys.stderr)
