#!/bin/bash
# usage: seedconfirm2.sh <worktree> "<id> <kind> <cargo flags...>" ...   kind: test | example | sh
# Confirms seeded changes whose demonstration needs special cargo flags: the patch applies, builds with --features dudect without
# warnings, the full suite passes with it, the demonstration fails with it and passes without it.
W=$1; shift
for x in "$@"; do set -- $x; id=$1; kind=$2; shift 2; FL="$*"; D=/tmp/seed/$id
 git -C $W checkout -q -- .; rm -rf $W/examples $W/tests/seed_demo.rs
 git -C $W apply $D/patch.diff || { echo "id=$id apply=FAIL"; continue; }
 if (cd $W && cargo build --offline --features dudect 2>&1 | grep -q "^error\|^warning"); then bd=FAIL; else bd=ok; fi
 t=$(cd $W && cargo test --workspace --no-fail-fast --offline 2>&1 | grep -E "^test result" | awk '{p+=$4; f+=$6} END {print p"/"f}')
 run() {
   case $kind in
     test) cp $D/demo.rs $W/tests/seed_demo.rs; (cd $W && timeout 2400 cargo test --offline $FL --test seed_demo >/dev/null 2>&1); r=$?; rm -f $W/tests/seed_demo.rs; return $r;;
     example) mkdir -p $W/examples; cp $D/demo.rs $W/examples/seed_demo.rs; (cd $W && timeout 3000 cargo run --offline $FL --example seed_demo >/dev/null 2>&1); r=$?; rm -rf $W/examples; return $r;;
     sh) (timeout 3000 sh $D/demo.sh $W >/dev/null 2>&1); return $?;;
   esac
 }
 if run; then w="PASSES(bad)"; else w="fails(ok)"; fi
 git -C $W checkout -q -- .
 if run; then wo="passes(ok)"; else wo="FAILS(bad)"; fi
 git -C $W checkout -q -- .; rm -rf $W/examples $W/tests/seed_demo.rs $W/tests/x*_demo.rs
 echo "id=$id build_dudect=$bd tests_pass/fail=$t demo_with_patch=$w demo_without=$wo ($kind $FL)"
done
