#!/bin/bash
# usage: seedbatch.sh "<seed-dir> <CHECKS>" ...   -- runs from a private snapshot of /verif so that edits to /verif do not disturb it
SNAP=/tmp/vsnap
mkdir -p $SNAP && rsync -a --delete --exclude work --exclude harness/target --exclude .git --exclude replays /verif/ $SNAP/
(cd $SNAP && bin/setup > /tmp/vsnap_setup.log 2>&1)
for x in "$@"; do set -- $x; VSNAP=$SNAP python3 /verif/tools/seedrun.py $1 $2; done
echo ALLDONE
