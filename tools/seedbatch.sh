#!/bin/bash
# usage: seedbatch.sh "<seed-dir> <CHECKS>" ...
# Runs from a private snapshot of /verif (/tmp/vsnap) against a private copy of /repo's HEAD (/tmp/rsnap), so that neither
# edits to /verif nor other runs that read /repo are disturbed.  The registered checks themselves always use /repo.
SNAP=/tmp/vsnap${SNAPID:-}; RS=/tmp/rsnap${SNAPID:-}
mkdir -p $SNAP && rsync -a --delete --exclude work --exclude 'harness/target*' --exclude .git --exclude replays /verif/ $SNAP/
rm -rf $RS && git -C /repo worktree prune && git -C /repo worktree add -q --detach $RS HEAD && cp /repo/Cargo.lock $RS/
sed -i "s#\"/repo\"#\"$RS\"#" $SNAP/lib/vlib.py $SNAP/harness/Cargo.toml $SNAP/harness/cfgprobe/Cargo.toml $SNAP/harness/nostdprobe/Cargo.toml
sed -i "s#/repo/#$RS/#g" $SNAP/bin/setup
(cd $SNAP && bin/setup > /tmp/vsnap_setup${SNAPID:-}.log 2>&1)
for x in "$@"; do set -- $x; VSNAP=$SNAP RSNAP=$RS python3 /verif/tools/seedrun.py $1 $2; done
echo ALLDONE
