#!/usr/bin/env python3
"""Prints the markdown table of seeded changes (DESIGN.md 12.5) from seeded/*/meta.json."""
import glob, json, os
rows = []
for d in sorted(glob.glob("/verif/seeded/C??-?") + glob.glob("/verif/seeded/X?-?") + glob.glob("/verif/seeded/R8-C??")):
    m = json.load(open(os.path.join(d, "meta.json")))
    sid = os.path.basename(d)
    summ = (m.get("summary") or "").replace("\n", " ").replace("|", "/")
    needs = (m.get("needs") or "").replace("\n", " ").replace("|", "/")
    rows.append("| %s | %s | %s | %s |" % (sid, summ[:170] + ("..." if len(summ) > 170 else ""), needs[:150] + ("..." if len(needs) > 150 else ""), ", ".join(m.get("detected_by", [])) or "-"))
print("| id | change | needs | reported by (quick tier) |\n|---|---|---|---|")
print("\n".join(rows))
