#!/usr/bin/env python3
"""Copies confirmed seeded changes from /tmp/seed/<id>/ into /verif/seeded/<id>/ and writes meta.json with
what the change needs, how it was confirmed and which checks report it (from work/seedlogs/)."""
import glob, json, os, re, shutil
V = "/verif"
conf = {}
for f in glob.glob(V + "/work/seedlogs/confirm*_*.log"):
    for ln in open(f):
        m = re.match(r"id=(\S+) (.*)", ln.strip())
        if m: conf[m.group(1)] = m.group(2)
det = {}
p = V + "/work/seedlogs/detect_all.jsonl"
if os.path.exists(p):
    for ln in open(p):
        r = json.loads(ln)
        det.setdefault(r["seed"], {})[r["check"]] = r   # later lines override earlier ones
rows = []
for d in sorted(glob.glob("/tmp/seed/C??-?") + glob.glob("/tmp/seed/X?-?") + glob.glob("/tmp/seed/R8-C??")):
    sid = os.path.basename(d)
    if sid not in conf or "fails(ok)" not in conf[sid] or "passes(ok)" not in conf[sid] or "/0" not in conf[sid]:
        if not os.path.exists(os.path.join(V, "seeded", sid, "meta.json")):
            print("not confirmed, skipped:", sid, conf.get(sid)); continue
    out = os.path.join(V, "seeded", sid)
    os.makedirs(out, exist_ok=True)
    for f in os.listdir(d):
        if os.path.isfile(os.path.join(d, f)) and f != "meta.json": shutil.copy(os.path.join(d, f), out)
    try: meta = json.load(open(os.path.join(d, "meta.json")))
    except Exception: meta = {}
    checks = det.get(sid, {})
    prop = sid.split("-")[1] if sid.startswith("R8-") else sid.split("-")[0] if sid.startswith("C") else ",".join(sorted(set(re.findall(r"C\d\d", str(meta.get("property", ""))))))
    meta.update(property=prop, agent_stated_property=str(meta.get("property", "")),
                confirmed_in_scratch_worktree=conf.get(sid, "confirmed manually, see DESIGN 12.5"),
                what_was_run="tools/seedconfirm.sh (git apply; cargo build --features dudect; cargo test --workspace --no-fail-fast --offline; demo with the patch must fail, without it must pass), then tools/seedrun.py (git -C /repo apply; bin/check <ID> --tier quick; git -C /repo checkout -- .)",
                checks_run={c: dict(exit=r["exit"], violations=r["violations"], first=r.get("first", "")[:200]) for c, r in checks.items()},
                detected_by=sorted(c for c, r in checks.items() if r["exit"] == 1))
    json.dump(meta, open(os.path.join(out, "meta.json"), "w"), indent=1)
    rows.append((sid, meta["detected_by"], [c for c, r in checks.items() if r["exit"] != 1]))
for r in rows: print(r)
