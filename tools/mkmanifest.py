#!/usr/bin/env python3
"""Regenerates /verif/MANIFEST.json from the table below (kept in one place so the manifest is
always schema-valid and consistent with the checks that exist under checks/)."""
import json
import os
import subprocess

V = os.path.dirname(os.path.dirname(os.path.abspath(__file__)))
props = [json.loads(l)["id"] for l in open(os.path.join(V, "properties.jsonl"))]

MC = "model_checking"
CHECKS = {
 "C02": dict(cat=MC, design="4 C02; 2.3 M1/M2b", technique="trace validation against the TLA+ transcription of FIPS 204 Verify evaluated by TLC (Layer F judge), on constructed boundary signatures",
    text="Every recorded verify/hash_verify/_internal_verify call is recomputed by TLC from a TLA+ transcription of Algorithms 3, 5, 8 written from the standard; families of inputs are constructed so that each acceptance condition is isolated (t1 = 0 forgeries at the norm boundary, every hint-malformation class, c~/mode/ctx changes, aligned-NTT-residue stress, random bytes). Model checking of the specification itself at toy size plus ACVP anchoring back the judge. 'iff' is class-exhaustive, not exhaustive over all byte strings.",
    note="trusts: my transcription of FIPS 204 (anchored to the ACVP vectors and to toy-size exhaustive theorems), the sha2/sha3 crates behind the hash helper, TLC, serde_json"),
 "C03": dict(cat=MC, design="4 C03", technique="trace validation against the TLA+ Sign state machine (one action group per rejection-loop attempt) evaluated by TLC; factoring Sign = Sign_internal o FormatMsg over the (mode, ctx, M) grid",
    text="External and internal signing calls are recomputed byte for byte by TLC from the TLA+ transcription of Algorithms 2, 4, 7 (including the attempt count); the (mode x |ctx| x |M|) grid is carried by checking that the external call equals _internal_sign on the M' the specification assigns, that exactly one 32-byte fallible RNG request was made, and that repeating a call gives the same bytes.",
    note="trusts: the transcription (ACVP sigGen anchored), hash helper, TLC; full recomputations are bounded by TLC speed (seconds each)"),
 "C04": dict(cat=MC, design="4 C04", technique="trace validation against the TLA+ KeyGen_internal evaluated by TLC (full and partial recomputation), both entry points",
    text="keygen_from_seed and try_keygen_with_rng outputs are recomputed byte for byte by TLC from the TLA+ transcription of Algorithm 6; many more seeds get the partial judgement (rho, K, tr = H(pk), s1/s2 sections, lengths); both entry points must agree and the RNG log must be one fallible 32-byte request.",
    note="trusts: the transcription (ACVP keyGen anchored), hash helper, TLC"),
}

REASONS = {}

def main():
    hooks = subprocess.run(["git", "-C", "/repo", "log", "--format=%h", "--grep=^verif-hooks"], stdout=subprocess.PIPE, text=True).stdout.split()
    checks = []
    for pid in props:
        if pid not in CHECKS or not os.path.exists(os.path.join(V, "checks", pid.lower() + ".py")):
            continue
        c = CHECKS[pid]
        checks.append(dict(property_id=pid, quick_cmd="bin/check %s --tier quick" % pid, thorough_cmd="bin/check %s --tier thorough" % pid,
                           evidence_file="evidence/%s.json" % pid, replay_cmd_template="bin/check %s --replay {path}" % pid,
                           engine="tlc+harness", level_claimed=dict(category=c["cat"], text=c["text"], design_ref="DESIGN.md section " + c["design"]),
                           level_note=c["note"], technique=c["technique"]))
    claimed = {c["property_id"] for c in checks}
    na = [dict(property_id=p, reason=REASONS.get(p, "check not built yet (build in progress; DESIGN.md section 4 describes the plan)")) for p in props if p not in claimed]
    m = dict(version=1, setup_cmd="bin/setup",
             hooks=dict(guard="verif-hooks", enable="cargo feature `verif-hooks` of fips204, enabled by the path dependency in /verif/harness/Cargo.toml (features = [\"verif-hooks\", \"dudect\"])",
                        baseline_off_cmd="cd /repo && cargo test --workspace --no-fail-fast --offline", source_commits=hooks, add_only=True),
             engines=[dict(name="tlc", path="/opt/veriftools/tla/tla2tools.jar", serves_properties=sorted(claimed), kind_free_text="TLC 1.8 model checker / evaluator of the TLA+ specification under spec/"),
                      dict(name="harness", path="harness/", serves_properties=sorted(claimed), kind_free_text="Rust conformance harness (path dependency on /repo with hooks on); records NDJSON traces"),
                      dict(name="xof", path="harness/src/xof.rs", serves_properties=sorted(claimed), kind_free_text="hash oracle helper for spec/Hash.tla (sha2/sha3 crates)")],
             checks=checks, notes="See DESIGN.md. Exit codes: 0 held, 1 violation (VIOLATION line + replay), 2 tool failure.", not_applicable=na)
    json.dump(m, open(os.path.join(V, "MANIFEST.json"), "w"), indent=1)
    print("claimed:", sorted(claimed))

main()
