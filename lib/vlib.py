"""Driver library for /verif/bin/check: builds the harness from /repo's current tree, runs the
harness, TLC and Apalache, collects coverage, writes evidence, reports violations.

Exit-code contract (DESIGN 9.1): 0 = held on everything explored (KNOWN-FINDING lines allowed),
1 = violation (after a `VIOLATION property=<id> replay=<path>` line), 2 = tool failure.
"""
import fcntl
import json
import os
import re
import shutil
import subprocess
import sys
import time
from concurrent.futures import ThreadPoolExecutor

VERIF = os.path.dirname(os.path.dirname(os.path.abspath(__file__)))
REPO = "/repo"
HARNESS = os.path.join(VERIF, "harness")
SPEC = os.path.join(VERIF, "spec")
WORK = os.path.join(VERIF, "work")
JAR = "/opt/veriftools/tla/tla2tools.jar:/opt/veriftools/tla/CommunityModules-deps.jar"

SETS = {
    44: dict(Q=8380417, N=256, ZETA=1753, D=13, KK=4, LL=4, ETA=2, TAU=39, GAMMA1=131072, GAMMA2=95232, OMEGA=80, LAMBDAB=128),
    65: dict(Q=8380417, N=256, ZETA=1753, D=13, KK=6, LL=5, ETA=4, TAU=49, GAMMA1=524288, GAMMA2=261888, OMEGA=55, LAMBDAB=192),
    87: dict(Q=8380417, N=256, ZETA=1753, D=13, KK=8, LL=7, ETA=2, TAU=60, GAMMA1=524288, GAMMA2=261888, OMEGA=75, LAMBDAB=256),
}
SIZES = {44: (1312, 2560, 2420), 65: (1952, 4032, 3309), 87: (2592, 4896, 4627)}


class ToolError(Exception):
    pass


class LibraryPanic(Exception):
    """The library under test panicked in a call the harness had not wrapped (harness exit code 3)."""

    def __init__(self, sub, args, loc, msg):
        Exception.__init__(self, "%s: %s" % (loc, msg))
        self.sub, self.args_, self.loc, self.msg = sub, args, loc, msg


def log(*a):
    print(*a, flush=True)


def tool_fail(msg):
    log("TOOL-ERROR:", msg)
    sys.exit(2)


# ---------------------------------------------------------------- harness build / run
def _cargo_env():
    e = dict(os.environ)
    e["CARGO_NET_OFFLINE"] = "true"
    e.pop("RUSTFLAGS", None)
    return e


def build_harness(profile="release", hooks=True, native=False):
    """Rebuild the harness (and therefore fips204) from /repo's working tree.  hooks=False builds the API-level
    part of the harness against the library WITHOUT the verif-hooks feature (separate target directory).
    native=True builds for the host CPU (-C target-cpu=native): code paths selected by cfg(target_feature = ...)
    exist only in such builds (separate target directory)."""
    os.makedirs(WORK, exist_ok=True)
    lock = open(os.path.join(WORK, ".cargo.lock"), "w")
    fcntl.flock(lock, fcntl.LOCK_EX)
    tdir = "target-native" if native else ("target" if hooks else "target-nohooks")
    try:
        if not os.path.exists(os.path.join(HARNESS, "Cargo.lock")):
            shutil.copy(os.path.join(REPO, "Cargo.lock"), os.path.join(HARNESS, "Cargo.lock"))
        cmd = ["cargo", "build", "--offline", "--profile", profile]
        if not hooks:
            cmd += ["--no-default-features"]
        if tdir != "target":
            cmd += ["--target-dir", tdir]
        env = _cargo_env()
        if native:
            env["RUSTFLAGS"] = "-C target-cpu=native"
        t0 = time.time()
        p = subprocess.run(cmd, cwd=HARNESS, env=env, stdout=subprocess.PIPE, stderr=subprocess.STDOUT, text=True)
        if p.returncode != 0:
            log(p.stdout[-4000:])
            raise ToolError("harness build failed (profile %s): the tree under /repo does not compile with hooks on" % profile)
        log("harness build (%s%s%s): %.1fs" % (profile, "" if hooks else ", library without verif-hooks", ", target-cpu=native" if native else "", time.time() - t0))
    finally:
        fcntl.flock(lock, fcntl.LOCK_UN)
        lock.close()
    d = "release" if profile == "release" else profile
    return os.path.join(HARNESS, tdir, d)


def drive(bindir, sub, timeout=3600, **kw):
    """Run a harness subcommand; returns stdout.  Non-zero exit is a tool error (a panic of the
    library under test is caught inside the harness and reported as data)."""
    args = [os.path.join(bindir, "drive"), sub] + ["%s=%s" % (k, v) for k, v in kw.items()]
    p = subprocess.run(args, stdout=subprocess.PIPE, stderr=subprocess.PIPE, text=True, timeout=timeout)
    if p.returncode == 3:
        m = re.search(r"UNGUARDED-LIBRARY-PANIC (.*?) \| (.*)", p.stdout)
        if m:
            raise LibraryPanic(sub, kw, m.group(1), m.group(2))
    if p.returncode != 0:
        log(p.stdout[-3000:])
        log(p.stderr[-3000:])
        raise ToolError("harness subcommand %s failed with exit %d" % (sub, p.returncode))
    return p.stdout


# ---------------------------------------------------------------- TLC
STATE_RE = re.compile(r"(\d+) states generated, (\d+) distinct states found")


def cfg_constants(setno):
    return "CONSTANTS " + " ".join("%s = %d" % kv for kv in SETS[setno].items())


def write_cfg(path, constants, body):
    with open(path, "w") as f:
        f.write(constants + "\n" + body + "\n")


def tlc(module, cfg, workdir, env=None, workers=1, timeout=1800, xmx="4g", extra=(), simulate=None, deque=False):
    """Run TLC; returns dict(rc, out, generated, distinct, prints, wall).  `module` is a path to
    the .tla file; its directory and /verif/spec are on the library path."""
    os.makedirs(workdir, exist_ok=True)
    e = dict(os.environ)
    e.setdefault("VERIF_XOF", os.path.join(HARNESS, "target", "release", "xof"))
    e["XOF_DIR"] = os.path.join(workdir, "xof")
    os.makedirs(e["XOF_DIR"], exist_ok=True)
    if env:
        e.update({k: str(v) for k, v in env.items()})
    libs = os.pathsep.join([SPEC, os.path.join(SPEC, "mc"), os.path.join(SPEC, "trace")])
    cmd = ["java", "-Xss512m", "-Xmx" + xmx, "-XX:+UseParallelGC", "-DTLA-Library=" + libs]
    if deque:
        cmd.append("-Dtlc2.tool.queue.IStateQueue=StateDeque")
    cmd += ["-cp", JAR, "tlc2.TLC", "-workers", str(workers), "-metadir", os.path.join(workdir, "meta"),
            "-cleanup", "-noGenerateSpecTE", "-config", cfg]
    if simulate:
        cmd += ["-simulate", simulate]
    cmd += list(extra) + [module]
    t0 = time.time()
    try:
        p = subprocess.run(cmd, cwd=os.path.dirname(module), env=e, stdout=subprocess.PIPE, stderr=subprocess.STDOUT,
                           text=True, timeout=timeout)
        out, rc = p.stdout, p.returncode
    except subprocess.TimeoutExpired as ex:
        out = (ex.stdout or b"").decode() if isinstance(ex.stdout, bytes) else (ex.stdout or "")
        rc = 124
    wall = time.time() - t0
    shutil.rmtree(e["XOF_DIR"], ignore_errors=True)
    shutil.rmtree(os.path.join(workdir, "meta"), ignore_errors=True)
    gen = dist = 0
    for m in STATE_RE.finditer(out):
        gen, dist = int(m.group(1)), int(m.group(2))
    prints = [ln for ln in out.splitlines() if ln.startswith("<<") or ln.startswith('"')]
    return dict(rc=rc, out=out, generated=gen, distinct=dist, prints=prints, wall=wall, cmd=" ".join(cmd))


def tlc_ok(r):
    return r["rc"] == 0 and "Model checking completed. No error has been found." in r["out"] or \
        (r["rc"] == 0 and "Finished in" in r["out"] and "Error:" not in r["out"])


def tlc_many(jobs, maxproc=8):
    """jobs: list of kwargs for tlc(); run up to maxproc TLC processes at once."""
    with ThreadPoolExecutor(max_workers=maxproc) as ex:
        return list(ex.map(lambda kw: tlc(**kw), jobs))


def coverage_actions(out):
    """Parse `-coverage 1` output: {action name: (distinct, total)} for the last report."""
    acts = {}
    for m in re.finditer(r"<(\w+) line \d+, col \d+ to line \d+, col \d+ of module \w+(?: \([\d ]+\))?>: (\d+):(\d+)", out):
        acts[m.group(1)] = (int(m.group(2)), int(m.group(3)))
    return acts


# ---------------------------------------------------------------- trace validation helpers
def split_ndjson(path, nchunks, outdir, prefix):
    """Split an NDJSON trace into up to nchunks files of whole events; returns paths."""
    lines = [ln for ln in open(path) if ln.strip()]
    if not lines:
        return []
    nchunks = max(1, min(nchunks, len(lines)))
    os.makedirs(outdir, exist_ok=True)
    paths = []
    for i in range(nchunks):
        part = lines[i::nchunks]
        p = os.path.join(outdir, "%s_%02d.ndjson" % (prefix, i))
        with open(p, "w") as f:
            f.writelines(part)
        paths.append(p)
    return paths


MISMATCH_RE = re.compile(r'^<<"MISMATCH", (\d+), "(\w+)", (.*)>>$')


def validate_traces(spec_module, cfg, traces, workroot, maxproc=8, timeout=1800, xmx="3g", env=None):
    """Validate each trace file with its own TLC process.  Returns (results, mismatches) where
    mismatches is a list of dict(trace, index, ev, info, event)."""
    jobs = []
    for i, t in enumerate(traces):
        e = {"TRACE": t}
        if env:
            e.update(env)
        jobs.append(dict(module=spec_module, cfg=cfg, workdir=os.path.join(workroot, "tlc%02d" % i), env=e,
                         workers=1, timeout=timeout, xmx=xmx))
    res = tlc_many(jobs, maxproc=maxproc)
    mism = []
    for t, r in zip(traces, res):
        r["trace"] = t
        nlines = sum(1 for ln in open(t) if ln.strip())
        done = [ln for ln in r["prints"] if ln.startswith('<<"TRACE_DONE"')]
        if r["rc"] != 0 or not done:
            raise ToolError("TLC did not finish trace %s (rc=%s)\n%s" % (t, r["rc"], r["out"][-3000:]))
        m = re.match(r'<<"TRACE_DONE", (\d+),', done[0])
        if int(m.group(1)) != nlines:
            raise ToolError("TLC consumed %s of %d events of %s" % (m.group(1), nlines, t))
        evs = None
        for ln in r["prints"]:
            mm = MISMATCH_RE.match(ln)
            if mm:
                if evs is None:
                    evs = [json.loads(x) for x in open(t) if x.strip()]
                idx = int(mm.group(1))
                mism.append(dict(trace=t, index=idx, ev=mm.group(2), info=mm.group(3), event=evs[idx - 1]))
    return res, mism


# ---------------------------------------------------------------- results
class Check:
    def __init__(self, pid, level, tier, seed):
        self.pid, self.level, self.tier, self.seed = pid, level, tier, seed
        self.t0 = time.time()
        self.cov = {"samples": [], "legs": {}}
        self.assumptions = []
        self.violations = []
        self.known_hits = []
        self.workdir = os.path.join(WORK, pid)
        shutil.rmtree(self.workdir, ignore_errors=True)
        os.makedirs(self.workdir, exist_ok=True)
        kf = os.path.join(VERIF, "known_findings.json")
        self.known = json.load(open(kf)).get("findings", []) if os.path.exists(kf) else []

    def add(self, key, n):
        self.cov[key] = self.cov.get(key, 0) + int(n)

    def leg(self, name, **kw):
        self.cov["legs"][name] = kw

    def sample(self, s):
        if len(self.cov["samples"]) < 12:
            self.cov["samples"].append(s)

    def add_tlc(self, r, traces=0):
        self.add("states", r["distinct"])
        self.add("transitions", r["generated"])
        self.add("traces_validated_against_impl", traces)

    def known_match(self, key):
        for k in self.known:
            if k.get("status", "open") == "open" and k.get("property") == self.pid and k.get("key") == key:
                return k
        return None

    def violation(self, key, what, replay):
        """A concrete failing case.  `key` identifies the call site / input class (matched against
        known_findings.json); `replay` is a JSON-serialisable description of the failing input."""
        k = self.known_match(key)
        if k is not None:
            if key not in self.known_hits:
                self.known_hits.append(key)
                log("KNOWN-FINDING: property=%s %s" % (self.pid, k.get("what", what)))
            return
        os.makedirs(os.path.join(VERIF, "replays"), exist_ok=True)
        path = os.path.join(VERIF, "replays", "%s-%d.json" % (self.pid, len(self.violations) + 1))
        with open(path, "w") as f:
            json.dump(dict(property=self.pid, key=key, what=what, replay=replay), f)
        self.violations.append(path)
        log("VIOLATION property=%s replay=%s" % (self.pid, path))
        log("  " + what[:600])

    def finish(self):
        wall = time.time() - self.t0
        cov = self.cov
        if self.level == "model_checking":
            cov.setdefault("states", 0)
            cov.setdefault("transitions", 0)
            cov.setdefault("traces_validated_against_impl", 0)
        if not cov["samples"]:
            cov["samples"].append("no sample recorded")
        ev = dict(property_id=self.pid, tier=self.tier, seed=self.seed, level=self.level, coverage=cov,
                  assumptions=self.assumptions, wall_s=round(wall, 1), violations=len(self.violations),
                  known_findings_hit=self.known_hits)
        os.makedirs(os.path.join(VERIF, "evidence"), exist_ok=True)
        with open(os.path.join(VERIF, "evidence", self.pid + ".json"), "w") as f:
            json.dump(ev, f, indent=1)
        log("%s %s: %s in %.0fs" % (self.pid, self.tier, "VIOLATIONS=%d" % len(self.violations) if self.violations else "ok", wall))
        shutil.rmtree(self.workdir, ignore_errors=True)
        return 1 if self.violations else 0


def replay_f(pid, path):
    """Re-execute the call stored in a replay file against the current /repo tree and let TLC
    (Layer F) judge it again.  Exit 1 with a VIOLATION line if it still disagrees."""
    from checks import common
    chk = Check(pid, "model_checking", "quick", 0)
    rep = json.load(open(path))
    setno = rep["replay"]["set"]
    for profile in ("checked", "release"):
        bindir = build_harness(profile)
        out = os.path.join(chk.workdir, profile)
        drive(bindir, "replayf", file=os.path.abspath(path), out=out)
        common.validate_f(chk, {setno: os.path.join(out, "replay_%d.ndjson" % setno)}, nproc=1,
                          key_of=lambda m: rep.get("key", "replay"))
    return chk.finish()


DONE_RE = re.compile(r'<<\s*"TRACE_DONE",\s*(\d+),(.*?)>>\s*>>|<<\s*"TRACE_DONE",\s*(\d+),([^<]*(?:<<[^>]*>>[^<]*)*)>>', re.S)


def parse_done(out):
    """Parse the (possibly line-wrapped) TRACE_DONE tuple printed by the trace specifications.
    Returns dict(n=consumed events, lists={name: [indices]}, nums={name: int}) or None."""
    i = out.find('"TRACE_DONE"')
    if i < 0:
        return None
    j = out.find("Model checking completed", i)
    txt = out[i:j if j > 0 else len(out)]
    txt = re.sub(r"\s+", " ", txt)
    m = re.match(r'"TRACE_DONE", (\d+)', txt)
    if not m:
        return None
    res = dict(n=int(m.group(1)), lists={}, nums={})
    for name, body in re.findall(r'"(\w+)", <<([^<>]*)>>', txt):
        res["lists"][name] = [int(x) for x in re.findall(r"-?\d+", body)]
    for name, val in re.findall(r'"(\w+)", (\d+)', txt):
        res["nums"][name] = int(val)
    return res


def mismatch_infos(out):
    """{event index: info text} from the (possibly line-wrapped) MISMATCH / MAGNITUDE tuples."""
    infos = {}
    flat = out
    for m in re.finditer(r'<<\s*"(MISMATCH|MAGNITUDE)",\s*(\d+),(.*?)(?=\n<<|\nModel checking|\Z)', flat, re.S):
        infos[(m.group(1), int(m.group(2)))] = re.sub(r"\s+", " ", m.group(3)).strip()[:1500]
    return infos
