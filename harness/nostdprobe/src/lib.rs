#![no_std]
#![allow(deprecated, unused_imports)]
use core::panic::PanicInfo;
use fips204::traits::{KeyGen, SerDes, Signer, Verifier};
// the crate-root re-exports every user of a custom RNG relies on exist in EVERY configuration
use fips204::{CryptoRng, RngCore, RngError};

#[panic_handler]
fn on_panic(_info: &PanicInfo) -> ! { loop {} }

macro_rules! touch {
    ($m:ident, $f:ident) => {
        pub fn $f(seed: &[u8; 32], msg: &[u8]) -> bool {
            use fips204::$m as m;
            let (pk, sk) = m::KG::keygen_from_seed(seed);
            let pk2 = sk.get_public_key();
            match m::_internal_sign(&sk, msg, &[], [0u8; 32]) {
                Ok(sig) => m::_internal_verify(&pk, msg, &sig, &[]) && pk2.verify(msg, &sig, &[]) == pk.verify(msg, &sig, &[]) && pk.into_bytes().len() == m::PK_LEN,
                Err(_) => false,
            }
        }
    };
}
#[cfg(feature = "ml-dsa-44")] touch!(ml_dsa_44, touch44);
#[cfg(feature = "ml-dsa-65")] touch!(ml_dsa_65, touch65);
#[cfg(feature = "ml-dsa-87")] touch!(ml_dsa_87, touch87);
