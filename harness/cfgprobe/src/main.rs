// C17 probe: references exactly the public items that the feature-gate model (spec/mc/MC_Features.tla)
// says exist in this configuration, and prints one behaviour digest per enabled parameter set.
#![allow(deprecated, unused_imports, dead_code)]
use fips204::traits::{KeyGen, SerDes, Signer, Verifier};
use fips204::Ph;
// through the crate-root re-exports (they must exist in every configuration), not through rand_core directly
use fips204::{CryptoRng, RngCore, RngError as Error};
use sha3::digest::{ExtendableOutput, Update, XofReader};

struct Fixed(u8);
impl RngCore for Fixed {
    fn next_u32(&mut self) -> u32 { unimplemented!() }
    fn next_u64(&mut self) -> u64 { unimplemented!() }
    fn fill_bytes(&mut self, _d: &mut [u8]) { unimplemented!() }
    fn try_fill_bytes(&mut self, d: &mut [u8]) -> Result<(), Error> { for x in d.iter_mut() { self.0 = self.0.wrapping_mul(31).wrapping_add(7); *x = self.0; } Ok(()) }
}
impl CryptoRng for Fixed {}
// an RNG that fails: before writing anything (0) or after writing `n` bytes
struct Failing(usize);
impl RngCore for Failing {
    fn next_u32(&mut self) -> u32 { unimplemented!() }
    fn next_u64(&mut self) -> u64 { unimplemented!() }
    fn fill_bytes(&mut self, _d: &mut [u8]) { unimplemented!() }
    fn try_fill_bytes(&mut self, d: &mut [u8]) -> Result<(), Error> {
        for x in d.iter_mut().take(self.0) { *x = 0x77; }
        Err(Error::from(core::num::NonZeroU32::new(Error::CUSTOM_START + 1).unwrap()))
    }
}
impl CryptoRng for Failing {}

macro_rules! digest_set {
    ($m:ident, $name:expr) => {{
        use fips204::$m;
        let mut h = sha3::Shake128::default();
        let (pk, sk) = $m::KG::keygen_from_seed(&[0x42u8; 32]);
        let (pk2, sk2) = $m::try_keygen_with_rng(&mut Fixed(1)).unwrap();
        h.update(&pk.clone().into_bytes()); h.update(&sk.clone().into_bytes());
        h.update(&pk2.clone().into_bytes()); h.update(&sk2.clone().into_bytes());
        let msg = b"feature configurations behave the same";
        let sig = sk.try_sign_with_rng(&mut Fixed(2), msg, b"ctx").unwrap();
        h.update(&sig);
        let mut verdicts = vec![pk.verify(msg, &sig, b"ctx"), pk.verify(msg, &sig, b"other"), pk2.verify(msg, &sig, b"ctx")];
        for ph in [Ph::SHA256, Ph::SHA512, Ph::SHAKE128] {
            let s = sk.try_hash_sign_with_rng(&mut Fixed(3), msg, b"c", &ph).unwrap();
            h.update(&s);
            verdicts.push(pk.hash_verify(msg, &s, b"c", &ph));
            verdicts.push(pk.hash_verify(b"x", &s, b"c", &ph));
        }
        // many signatures: rare rejection-loop paths must agree across configurations too
        for i in 0u32..1500 {
            let m = i.to_le_bytes();
            let s = sk.try_sign_with_rng(&mut Fixed((i % 251) as u8), &m, b"").unwrap();
            h.update(&s);
            verdicts.push(pk.verify(&m, &s, b""));
        }
        // a failing generator is reported by every randomised entry point in EVERY configuration (no fallback, no panic)
        for n in [0usize, 16, 32] {
            verdicts.push($m::try_keygen_with_rng(&mut Failing(n)).is_err());
            verdicts.push(sk.try_sign_with_rng(&mut Failing(n), msg, b"").is_err());
            verdicts.push(sk.try_hash_sign_with_rng(&mut Failing(n), msg, b"", &Ph::SHA512).is_err());
        }
        let pk3 = $m::PublicKey::try_from_bytes(pk.clone().into_bytes()).unwrap();
        let sk3 = $m::PrivateKey::try_from_bytes(sk.clone().into_bytes()).unwrap();
        h.update(&sk3.get_public_key().into_bytes());
        verdicts.push(pk3.verify(msg, &sig, b"ctx"));
        let isig = $m::_internal_sign(&sk3, msg, &[], [9u8; 32]).unwrap();
        h.update(&isig);
        verdicts.push($m::_internal_verify(&pk3, msg, &isig, &[]));
        h.update(&verdicts.iter().map(|&b| b as u8).collect::<Vec<u8>>());
        h.update(&[$m::PK_LEN as u8, ($m::PK_LEN >> 8) as u8, $m::SK_LEN as u8, ($m::SK_LEN >> 8) as u8, $m::SIG_LEN as u8, ($m::SIG_LEN >> 8) as u8]);
        #[cfg(feature = "default-rng")]
        {
            // the OS-RNG entry points exist and work (their output is random, so only success is digested)
            let (p, s) = $m::try_keygen().unwrap();
            let g = s.try_sign(msg, b"").unwrap();
            let g2 = s.try_hash_sign(msg, b"", &Ph::SHA256).unwrap();
            assert!(p.verify(msg, &g, b"") && p.hash_verify(msg, &g2, b"", &Ph::SHA256));
        }
        let mut out = [0u8; 16];
        h.finalize_xof().read(&mut out);
        println!("DIGEST {} {}", $name, out.iter().map(|b| format!("{:02x}", b)).collect::<String>());
        // the constant-time test entry point exists only with `dudect`; its output is digested separately so that the
        // ordinary behaviour above is compared against the DEFAULT configuration in every one of the 28
        #[cfg(feature = "dudect")]
        {
            let d = $m::dudect_keygen_sign_with_rng(&mut Fixed(5), msg).unwrap();
            let mut hd = sha3::Shake128::default(); hd.update(&d);
            let mut o2 = [0u8; 16]; hd.finalize_xof().read(&mut o2);
            println!("DIGESTD {} {}", $name, o2.iter().map(|b| format!("{:02x}", b)).collect::<String>());
        }
    }};
}

// negative references: must fail to compile when the gate is off
#[cfg(feature = "neg-44")] use fips204::ml_dsa_44 as _n44;
#[cfg(feature = "neg-65")] use fips204::ml_dsa_65 as _n65;
#[cfg(feature = "neg-87")] use fips204::ml_dsa_87 as _n87;

fn main() {
    #[cfg(feature = "ml-dsa-44")] digest_set!(ml_dsa_44, "44");
    #[cfg(feature = "ml-dsa-65")] digest_set!(ml_dsa_65, "65");
    #[cfg(feature = "ml-dsa-87")] digest_set!(ml_dsa_87, "87");
    #[cfg(feature = "neg-rng")]
    { #[cfg(feature = "ml-dsa-44")] let _ = fips204::ml_dsa_44::try_keygen(); #[cfg(feature = "ml-dsa-65")] let _ = fips204::ml_dsa_65::try_keygen(); #[cfg(feature = "ml-dsa-87")] let _ = fips204::ml_dsa_87::try_keygen(); }
    #[cfg(feature = "neg-dudect")]
    { #[cfg(feature = "ml-dsa-44")] let _ = fips204::ml_dsa_44::dudect_keygen_sign_with_rng(&mut Fixed(1), b"");
      #[cfg(feature = "ml-dsa-65")] let _ = fips204::ml_dsa_65::dudect_keygen_sign_with_rng(&mut Fixed(1), b"");
      #[cfg(feature = "ml-dsa-87")] let _ = fips204::ml_dsa_87::dudect_keygen_sign_with_rng(&mut Fixed(1), b""); }
}
