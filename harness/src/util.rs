// Shared helpers: deterministic PRNG, scripted RNGs, JSON helpers, panic capture.
use rand_core::{CryptoRng, Error, RngCore};
use serde_json::{json, Value};
use std::cell::RefCell;
use std::io::Write;

pub fn jbytes(b: &[u8]) -> Value { Value::Array(b.iter().map(|&x| json!(x)).collect()) }
pub fn hexs(b: &[u8]) -> String { b.iter().map(|x| format!("{:02x}", x)).collect() }
pub fn unhex(s: &str) -> Vec<u8> {
    (0..s.len() / 2).map(|i| u8::from_str_radix(&s[2 * i..2 * i + 2], 16).unwrap()).collect()
}
pub fn vbytes(v: &Value) -> Vec<u8> { v.as_array().unwrap().iter().map(|x| x.as_u64().unwrap() as u8).collect() }

/// splitmix64-based deterministic byte source for test-data generation (not the RNG under test)
#[derive(Clone)]
pub struct Prng(pub u64);
impl Prng {
    pub fn new(seed: u64, stream: u64) -> Self { Prng(seed ^ stream.wrapping_mul(0x9E37_79B9_7F4A_7C15) ^ 0xD1B5_4A32_D192_ED03) }
    pub fn next(&mut self) -> u64 {
        self.0 = self.0.wrapping_add(0x9E37_79B9_7F4A_7C15);
        let mut z = self.0;
        z = (z ^ (z >> 30)).wrapping_mul(0xBF58_476D_1CE4_E5B9);
        z = (z ^ (z >> 27)).wrapping_mul(0x94D0_49BB_1331_11EB);
        z ^ (z >> 31)
    }
    pub fn below(&mut self, n: u64) -> u64 { self.next() % n }
    pub fn range(&mut self, lo: i64, hi: i64) -> i64 { lo + (self.next() % ((hi - lo + 1) as u64)) as i64 }
    pub fn bytes(&mut self, n: usize) -> Vec<u8> { (0..n).map(|_| (self.next() >> 24) as u8).collect() }
    pub fn arr32(&mut self) -> [u8; 32] { let v = self.bytes(32); v.try_into().unwrap() }
}

#[derive(Clone, Debug, PartialEq)]
pub enum Fault { None, ErrBefore, ErrAfter(usize) }

/// The caller's RNG as the library sees it: replays `data`, logs every request, can be told to
/// fail; the infallible methods panic (the library must only use try_fill_bytes).
pub struct ScriptRng {
    pub data: Vec<u8>,
    pub pos: usize,
    pub fault: Fault,
    pub fail_at_request: usize, // 0-based index of the try_fill_bytes request that faults
    pub log: Vec<(String, usize)>,
}
impl ScriptRng {
    pub fn new(data: &[u8]) -> Self { ScriptRng { data: data.to_vec(), pos: 0, fault: Fault::None, fail_at_request: 0, log: vec![] } }
    pub fn faulty(data: &[u8], fault: Fault, at: usize) -> Self { ScriptRng { data: data.to_vec(), pos: 0, fault, fail_at_request: at, log: vec![] } }
    fn take(&mut self, dest: &mut [u8]) {
        for d in dest.iter_mut() { *d = self.data[self.pos % self.data.len()]; self.pos += 1; }
    }
    pub fn log_json(&self) -> Value { Value::Array(self.log.iter().map(|(m, n)| json!({"m": m, "n": n})).collect()) }
}
/// The identity of the error the scripted generator reports, and whether the fault persists on every later request
/// (a library that inspects the error - retrying "transient" OS codes, say - must still report the failure).
pub static ERR_CODE: std::sync::atomic::AtomicU32 = std::sync::atomic::AtomicU32::new(0);
pub static ERR_PERSISTS: std::sync::atomic::AtomicBool = std::sync::atomic::AtomicBool::new(false);
pub fn err_code() -> u32 { match ERR_CODE.load(std::sync::atomic::Ordering::Relaxed) { 0 => Error::CUSTOM_START + 7, c => c } }
fn scripted_err() -> Error { Error::from(core::num::NonZeroU32::new(err_code()).unwrap()) }
pub const INFALLIBLE_MSG: &str = "VERIF: infallible RNG method called";
impl RngCore for ScriptRng {
    fn next_u32(&mut self) -> u32 { self.log.push(("next_u32".into(), 4)); panic!("{}", INFALLIBLE_MSG) }
    fn next_u64(&mut self) -> u64 { self.log.push(("next_u64".into(), 8)); panic!("{}", INFALLIBLE_MSG) }
    fn fill_bytes(&mut self, dest: &mut [u8]) { self.log.push(("fill_bytes".into(), dest.len())); panic!("{}", INFALLIBLE_MSG) }
    fn try_fill_bytes(&mut self, dest: &mut [u8]) -> Result<(), Error> {
        let idx = self.log.iter().filter(|(m, _)| m == "try_fill_bytes").count();
        self.log.push(("try_fill_bytes".into(), dest.len()));
        if idx == self.fail_at_request || (idx > self.fail_at_request && self.fault != Fault::None && ERR_PERSISTS.load(std::sync::atomic::Ordering::Relaxed)) {
            match self.fault {
                Fault::None => {}
                Fault::ErrBefore => return Err(scripted_err()),
                Fault::ErrAfter(n) => {
                    let n = n.min(dest.len());
                    let (a, _) = dest.split_at_mut(n);
                    self.take(a);
                    return Err(scripted_err());
                }
            }
        }
        self.take(dest);
        Ok(())
    }
}
impl CryptoRng for ScriptRng {}

thread_local! { static LAST_PANIC: RefCell<Option<(String, String)>> = const { RefCell::new(None) }; }
pub fn install_panic_hook() {
    std::panic::set_hook(Box::new(|info| {
        let loc = info.location().map(|l| format!("{}:{}", l.file(), l.line())).unwrap_or_default();
        let msg = if let Some(s) = info.payload().downcast_ref::<&str>() { s.to_string() }
                  else if let Some(s) = info.payload().downcast_ref::<String>() { s.clone() } else { "?".into() };
        LAST_PANIC.with(|p| *p.borrow_mut() = Some((loc, msg)));
    }));
}
/// Run f; Ok(value) or Err((location, message)) if it panicked.
pub fn guarded<T>(f: impl FnOnce() -> T) -> Result<T, (String, String)> {
    LAST_PANIC.with(|p| *p.borrow_mut() = None);
    match std::panic::catch_unwind(std::panic::AssertUnwindSafe(f)) {
        Ok(v) => Ok(v),
        Err(_) => Err(LAST_PANIC.with(|p| p.borrow_mut().take()).unwrap_or(("?".into(), "?".into()))),
    }
}

pub struct Out { w: std::io::BufWriter<std::fs::File>, pub n: usize }
impl Out {
    pub fn create(path: &str) -> Self {
        if let Some(d) = std::path::Path::new(path).parent() { let _ = std::fs::create_dir_all(d); }
        Out { w: std::io::BufWriter::new(std::fs::File::create(path).expect("create trace")), n: 0 }
    }
    pub fn ev(&mut self, v: Value) { writeln!(self.w, "{}", v).unwrap(); self.n += 1; }
    pub fn finish(mut self) -> usize { self.w.flush().unwrap(); self.n }
}

/// command-line "key=value" arguments
pub struct Args(pub std::collections::HashMap<String, String>);
impl Args {
    pub fn parse(a: &[String]) -> Self {
        Args(a.iter().filter_map(|s| s.split_once('=').map(|(k, v)| (k.to_string(), v.to_string()))).collect())
    }
    pub fn s(&self, k: &str, d: &str) -> String { self.0.get(k).cloned().unwrap_or_else(|| d.to_string()) }
    pub fn u(&self, k: &str, d: u64) -> u64 { self.0.get(k).map(|v| v.parse().unwrap()).unwrap_or(d) }
    pub fn sets(&self) -> Vec<u32> { self.s("sets", "44,65,87").split(',').map(|x| x.parse().unwrap()).collect() }
}
