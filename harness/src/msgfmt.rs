// Message / context generators and the harness's own reading of the message representative M' (Algorithms 2-5).
// No hooks needed; every use of format_msg is re-judged by TLC (event field "mp") or only selects inputs.
use crate::util::Prng;
use sha2::Digest;
use sha3::digest::{ExtendableOutput, Update, XofReader};

pub fn shake256(parts: &[&[u8]], n: usize) -> Vec<u8> {
    let mut h = sha3::Shake256::default();
    for p in parts { h.update(p); }
    let mut out = vec![0u8; n];
    h.finalize_xof().read(&mut out);
    out
}
pub fn msg_of(p: &mut Prng, class: u64) -> Vec<u8> {
    let n = match class % 7 { 0 => 0, 1 => 1, 2 => 135, 3 => 136, 4 => 137, 5 => 4096, _ => 33 + p.below(200) as usize };
    p.bytes(n)
}
pub fn ctx_of(p: &mut Prng, class: u64) -> Vec<u8> {
    let n = match class % 5 { 0 => 0, 1 => 1, 2 => 255, 3 => 17, _ => p.below(256) as usize };
    p.bytes(n)
}
/// OID and digest of the pre-hash functions (FIPS 204 Algorithm 4 lines 10-22), written here from the standard
pub fn prehash(mode: &str, m: &[u8]) -> Vec<u8> {
    let mut v = vec![0x06u8, 0x09, 0x60, 0x86, 0x48, 0x01, 0x65, 0x03, 0x04, 0x02];
    match mode {
        "SHA256" => { v.push(0x01); v.extend_from_slice(&sha2::Sha256::digest(m)); }
        "SHA512" => { v.push(0x03); v.extend_from_slice(&sha2::Sha512::digest(m)); }
        "SHAKE128" => { v.push(0x0B); let mut h = sha3::Shake128::default(); h.update(m); let mut d = [0u8; 32]; h.finalize_xof().read(&mut d); v.extend_from_slice(&d); }
        _ => panic!("not a pre-hash mode"),
    }
    v
}
pub fn format_msg(mode: &str, ctx: &[u8], m: &[u8]) -> Vec<u8> {
    let mut v = vec![if mode == "pure" { 0u8 } else { 1u8 }, ctx.len() as u8];
    v.extend_from_slice(ctx);
    if mode == "pure" { v.extend_from_slice(m); } else { v.extend_from_slice(&prehash(mode, m)); }
    v
}
pub fn bit_length(x: i32) -> usize { (32 - x.leading_zeros()) as usize }
