// Hash helper for the TLA+ oracle operators (spec/Hash.tla).
// usage: xof <fn> <outlen> "<<1, 2, 3>>"  -> writes a JSON array to $XOF_DIR/<id>.json, prints its path
//        xof selftest                      -> checks fixed NIST digests, exit 0 on success
use sha2::{Digest, Sha256, Sha512};
use sha3::digest::{ExtendableOutput, Update, XofReader};
use sha3::{Shake128, Shake256};
use std::io::Write;

fn run(f: &str, outlen: usize, data: &[u8]) -> Option<Vec<u8>> {
    let mut out = vec![0u8; outlen];
    match f {
        "shake256" => { let mut h = Shake256::default(); h.update(data); h.finalize_xof().read(&mut out); }
        "shake128" => { let mut h = Shake128::default(); h.update(data); h.finalize_xof().read(&mut out); }
        "sha256" => { out = Sha256::digest(data).to_vec(); }
        "sha512" => { out = Sha512::digest(data).to_vec(); }
        _ => return None,
    }
    Some(out)
}
fn hex(b: &[u8]) -> String { b.iter().map(|x| format!("{:02x}", x)).collect() }

fn main() {
    let a: Vec<String> = std::env::args().collect();
    if a.len() == 2 && a[1] == "selftest" {
        // FIPS 180-4 / FIPS 202 published digests of the empty string and "abc"
        let checks: [(&str, usize, &[u8], &str); 6] = [
            ("sha256", 32, b"abc", "ba7816bf8f01cfea414140de5dae2223b00361a396177a9cb410ff61f20015ad"),
            ("sha512", 64, b"abc", "ddaf35a193617abacc417349ae20413112e6fa4e89a97ea20a9eeee64b55d39a2192992a274fc1a836ba3c23a3feebbd454d4423643ce80e2a9ac94fa54ca49f"),
            ("shake128", 32, b"", "7f9c2ba4e88f827d616045507605853ed73b8093f6efbc88eb1a6eacfa66ef26"),
            ("shake256", 32, b"", "46b9dd2b0ba88d13233b3feb743eeb243fcd52ea62b81b82b50c27646ed5762f"),
            ("shake128", 16, b"abc", "5881092dd818bf5cf8a3ddb793fbcba7"),
            ("shake256", 16, b"abc", "483366601360a8771c6863080cc4114d"),
        ];
        for (f, n, d, want) in checks {
            let got = hex(&run(f, n, d).unwrap());
            if got != want { eprintln!("xof selftest FAILED {} {:?}: {} != {}", f, d, got, want); std::process::exit(1); }
        }
        println!("xof selftest ok");
        return;
    }
    if a.len() != 4 { std::process::exit(3); }
    let outlen: usize = a[2].parse().unwrap();
    let data: Vec<u8> = a[3].split(|c: char| !c.is_ascii_digit()).filter(|s| !s.is_empty())
        .map(|s| s.parse::<u8>().unwrap()).collect();
    let out = match run(&a[1], outlen, &data) { Some(o) => o, None => std::process::exit(3) };
    let mut h = Shake128::default();
    h.update(a[1].as_bytes()); h.update(&outlen.to_le_bytes()); h.update(&data);
    let mut id = [0u8; 12];
    h.finalize_xof().read(&mut id);
    let dir = std::env::var("XOF_DIR").unwrap_or_else(|_| "/verif/work/xof".into());
    let _ = std::fs::create_dir_all(&dir);
    let name = format!("{}/{}.{}.json", dir, hex(&id), std::process::id());
    let body = format!("[{}]", out.iter().map(|b| b.to_string()).collect::<Vec<_>>().join(","));
    let mut f = std::fs::File::create(&name).unwrap();
    f.write_all(body.as_bytes()).unwrap();
    print!("{}", name);
}
