#![allow(dead_code)]
// Conformance harness: drives the real fips204 library and records NDJSON traces that the
// TLA+ trace specifications under /verif/spec/trace validate.
mod api;
mod util;
mod msgfmt;
mod apitrace;
#[cfg(feature = "hooks")]
mod codec;
#[cfg(feature = "hooks")]
mod fcases;
#[cfg(feature = "hooks")]
mod hostile;
#[cfg(feature = "hooks")]
mod refmath;
#[cfg(feature = "hooks")]
mod ring;
#[cfg(feature = "hooks")]
mod scalar;
#[cfg(feature = "hooks")]
mod sweeps;

use util::Args;
#[cfg(feature = "hooks")]
pub use codec::patch_field as codec_patch_field;

fn main() {
    util::install_panic_hook();
    let a: Vec<String> = std::env::args().collect();
    if a.len() < 2 { eprintln!("usage: drive <subcommand> key=value ..."); std::process::exit(2); }
    let args = Args::parse(&a[2..]);
    // A panic of the library under test that escapes a call the harness did not wrap is still an observation of the
    // library, not a tool failure: report it (exit 3) so that the driver turns it into a violation with a replay.
    let sub = a[1].clone();
    let r = util::guarded(|| dispatch(&sub, &a, &args));
    if let Err((loc, msg)) = r {
        // the harness is compiled with relative paths (src/...), the library as a path dependency with absolute ones
        if loc.contains("/harness/src/") || loc.starts_with("src/") || loc.is_empty() { eprintln!("harness panic at {}: {}", loc, msg); std::process::exit(101); }
        println!("UNGUARDED-LIBRARY-PANIC {} | {}", loc, msg);
        std::process::exit(3);
    }
}

fn dispatch(sub: &str, a: &[String], args: &Args) {
    match sub {
        #[cfg(feature = "hooks")]
        "keygen" | "sign" | "verify" | "replayf" => fcases::run(a[1].as_str(), args),
        #[cfg(feature = "hooks")]
        "scalar" => scalar::run(args),
        #[cfg(feature = "hooks")]
        "ring" => ring::run(args),
        #[cfg(feature = "hooks")]
        "codec" | "skfields" => codec::run(a[1].as_str(), args),
        #[cfg(feature = "hooks")]
        "hostile" => hostile::run(args),
        #[cfg(feature = "hooks")]
        "sweeps" => sweeps::run(args),
        "cthash" => cthash(args),
        #[cfg(feature = "hooks")]
        "t0probe" => t0probe(args),
        #[cfg(feature = "hooks")]
        "ctskel" => ctskel(args),
        "api" => apitrace::run(args),
        other => { eprintln!("unknown subcommand {}", other); std::process::exit(2); }
    }
}

/// C14: reads a valgrind-lackey memory/instruction trace on stdin, cuts it into blocks of `block`
/// lines and prints one JSON object with the SHAKE128 digest of every block (the raw trace is
/// never stored).  With dump=<k> the k-th block is written out instead.
fn cthash(a: &Args) {
    use sha3::digest::{ExtendableOutput, Update, XofReader};
    use std::io::BufRead;
    let block = a.u("block", 4096) as usize;
    let dump = a.0.get("dump").map(|v| v.parse::<usize>().unwrap());
    let stdin = std::io::stdin();
    let (mut n, mut inblock, mut blocks): (usize, usize, Vec<String>) = (0, 0, vec![]);
    let mut h = sha3::Shake128::default();
    let mut dumped: Vec<String> = vec![];
    let (mut last, mut rep, mut started, mut stopped) = (String::new(), 0usize, false, false);
    // instruction addresses (hex, as lackey prints them) to leave out of the observation: the driver passes the
    // instructions guarded by a KNOWN, recorded data-dependent branch so that everything else is still compared exactly
    let skip: std::collections::HashSet<String> = a.s("skip", "").split(',').filter(|s| !s.is_empty()).map(|s| s.to_string()).collect();
    // address ranges lo-hi (hex) of whole functions left out of the observation, together with their loads and stores
    let ranges: Vec<(u64, u64)> = a.s("skipranges", "").split(',').filter(|s| !s.is_empty()).map(|r| {
        let (lo, hi) = r.split_once('-').expect("skipranges=lo-hi"); (u64::from_str_radix(lo, 16).unwrap(), u64::from_str_radix(hi, 16).unwrap()) }).collect();
    let mut in_skipped = false;
    let mut first_i = String::new();
    let mut skipped = 0usize;
    for line in stdin.lock().lines() {
        let line = line.unwrap();
        // lackey lines: "I  addr,size", " L addr,size", " S addr,size", " M addr,size"; everything else (==pid== banners) is skipped
        let b = line.as_bytes();
        if b.len() < 4 || !(b[0] == b'I' || (b[0] == b' ' && (b[1] == b'L' || b[1] == b'S' || b[1] == b'M'))) { continue; }
        // region markers of the probe: 3 consecutive identical 8-byte stores open, 5 close
        if b[0] == b' ' {
            if b[1] == b'S' && line.ends_with(",8") && line == last { rep += 1; } else { rep = 1; last = line.clone(); }
            if rep == 3 && !started { started = true; continue; }
            if rep == 5 && started { stopped = true; }
        }
        if !started || stopped { continue; }
        if b[0] == b'I' {
            let addr = line[1..].trim().split(',').next().unwrap_or("");
            if first_i.is_empty() { first_i = addr.to_string(); }
            if skip.contains(addr) { skipped += 1; continue; }
            if !ranges.is_empty() {
                let v = u64::from_str_radix(addr, 16).unwrap_or(0);
                in_skipped = ranges.iter().any(|(lo, hi)| v >= *lo && v < *hi);
                if in_skipped { skipped += 1; continue; }
            }
        } else if in_skipped { skipped += 1; continue; }
        h.update(b); h.update(b"\n");
        if dump == Some(blocks.len()) { dumped.push(line.clone()); }
        n += 1; inblock += 1;
        if inblock == block {
            let mut d = [0u8; 8]; std::mem::take(&mut h).finalize_xof().read(&mut d);
            blocks.push(util::hexs(&d)); inblock = 0;
        }
    }
    if !started || !stopped { eprintln!("cthash: region markers not found (started={}, stopped={})", started, stopped); std::process::exit(3); }
    if inblock > 0 { let mut d = [0u8; 8]; h.finalize_xof().read(&mut d); blocks.push(util::hexs(&d)); }
    if dump.is_some() { for l in dumped { println!("{}", l); } return; }
    println!("{}", serde_json::json!({"nlines": n, "blocks": blocks, "first_i": first_i, "skipped": skipped}));
}

#[cfg(feature = "hooks")]
/// C14 skeleton: number of rejection-loop attempts of the CTEST entry point for random RNG outputs
fn ctskel(a: &Args) {
    use api::MlDsa;
    use fips204::verif_hooks as vh;
    fn one<S: MlDsa>(seed: u64, n: usize) {
        let mut p = util::Prng::new(seed, 0x1400 + S::SET as u64);
        for _ in 0..n {
            let d = p.bytes(64);
            vh::trace_start();
            let r = util::guarded(|| S::dudect(&mut util::ScriptRng::new(&d), b"skeleton"));
            let att = vh::trace_take().iter().filter(|e| e.0 == "sign_attempt").count();
            println!("{}", serde_json::json!({"ev": "CtSkeleton", "set": S::SET, "rng": util::hexs(&d[..8]), "attempts": att, "ok": matches!(r, Ok(Ok(_)))}));
        }
    }
    let (seed, n) = (a.u("seed", 1), a.u("n", 8) as usize);
    one::<api::Set44>(seed, n); one::<api::Set65>(seed, n); one::<api::Set87>(seed, n);
}

#[cfg(feature = "hooks")]
/// experiment: how many rejection-loop attempts do accepted private keys with adversarial t0 sections need?
fn t0probe(a: &Args) {
    use api::MlDsa;
    use fips204::verif_hooks as vh;
    fn one<S: MlDsa>(nmsg: usize) {
        let mut p = util::Prng::new(7, S::SET as u64);
        let (_pk, sk) = S::keygen_seed(&p.arr32());
        let base = S::sk_bytes(&sk);
        let c = vh::bit_length(2 * S::ETA);
        let t0_start = 128 + (S::L + S::K) * 256 * c / 8;
        let mk = |f: &dyn Fn(usize) -> i32| -> Vec<u8> {
            let mut b = base.clone();
            for x in b[t0_start..].iter_mut() { *x = 0; }
            for i in 0..S::K * 256 { let v = (4096 - f(i)) as u32; let bit = t0_start * 8 + i * 13; for t in 0..13 { if (v >> t) & 1 == 1 { b[(bit + t) / 8] |= 1 << ((bit + t) % 8); } } }
            b
        };
        let pats: Vec<(&str, Vec<u8>)> = vec![
            ("all +4096", mk(&|_| 4096)), ("all -4095", mk(&|_| -4095)), ("alternating", mk(&|i| if i % 2 == 0 { 4096 } else { -4095 })),
            ("blocks of 64", mk(&|i| if (i / 64) % 2 == 0 { 4096 } else { -4095 })), ("first half +, second half -", mk(&|i| if i % 256 < 128 { 4096 } else { -4095 })),
        ];
        for (name, b) in pats {
            let k = S::sk_from(&b).expect("accepted");
            let mut mx = 0usize;
            for i in 0..nmsg {
                vh::trace_start();
                let r = util::guarded(|| S::internal_sign(&k, &[i as u8, (i >> 8) as u8], [0u8; 32]));
                let att = vh::trace_take().iter().filter(|e| e.0 == "sign_attempt").count();
                mx = mx.max(att);
                if let Err((loc, msg)) = r { println!("set {} t0 {}: PANIC after {} attempts at {}: {}", S::SET, name, att, loc, msg); break; }
            }
            println!("set {} t0 pattern {:28} max attempts over {} messages: {}", S::SET, name, nmsg, mx);
        }
    }
    let n = a.u("n", 20) as usize;
    one::<api::Set44>(n); one::<api::Set65>(n); one::<api::Set87>(n);
}
