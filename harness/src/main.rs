#![allow(dead_code)]
// Conformance harness: drives the real fips204 library and records NDJSON traces that the
// TLA+ trace specifications under /verif/spec/trace validate.
mod api;
mod util;
mod apitrace;
mod codec;
mod fcases;
mod hostile;
mod refmath;
mod ring;
mod scalar;
mod sweeps;

use util::Args;
pub use codec::patch_field as codec_patch_field;

fn main() {
    util::install_panic_hook();
    let a: Vec<String> = std::env::args().collect();
    if a.len() < 2 { eprintln!("usage: drive <subcommand> key=value ..."); std::process::exit(2); }
    let args = Args::parse(&a[2..]);
    match a[1].as_str() {
        "keygen" | "sign" | "verify" | "replayf" => fcases::run(a[1].as_str(), &args),
        "scalar" => scalar::run(&args),
        "ring" => ring::run(&args),
        "codec" | "skfields" => codec::run(a[1].as_str(), &args),
        "hostile" => hostile::run(&args),
        "sweeps" => sweeps::run(&args),
        "api" => apitrace::run(&args),
        other => { eprintln!("unknown subcommand {}", other); std::process::exit(2); }
    }
}
