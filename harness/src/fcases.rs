// Events judged by Layer F (the TLA+ transcription of FIPS 204 evaluated by TLC):
// KeyGen, KeyGenLite, KeyGenBoth, SignInternal, Sign, SignFactor, Same, VerifyInternal, Verify.
use crate::api::*;
use crate::for_set;
use crate::refmath;
use crate::util::*;
use fips204::verif_hooks as vh;
use serde_json::{json, Value};

pub use crate::msgfmt::{ctx_of, format_msg, msg_of, shake256};

fn rnglog_ok_shape(r: &ScriptRng) -> Value { r.log_json() }

// ------------------------------------------------------------------------------- C04
pub fn keygen<S: MlDsa>(seed: u64, nfull: usize, nlite: usize, extra_seeds: &[[u8; 32]], out: &mut Out) {
    let mut p = Prng::new(seed, 0x0400 + S::SET as u64);
    let mut seeds: Vec<([u8; 32], bool)> = vec![];
    for (i, s) in extra_seeds.iter().enumerate() { seeds.push((*s, i < nfull)); }
    for i in 0..(nfull + nlite) { seeds.push((p.arr32(), i < nfull)); }
    seeds.push(([0u8; 32], false));
    seeds.push(([0xffu8; 32], false));
    for (xi, full) in seeds {
        let r = guarded(|| {
            let (pk, sk) = S::keygen_seed(&xi);
            let mut rng = ScriptRng::new(&xi);
            let (pk2, sk2) = S::keygen_rng(&mut rng).expect("healthy rng");
            (S::pk_bytes(&pk), S::sk_bytes(&sk), S::pk_bytes(&pk2), S::sk_bytes(&sk2), rnglog_ok_shape(&rng))
        });
        match r {
            Ok((pkb, skb, pk2, sk2, log)) => {
                out.ev(json!({"ev": if full { "KeyGen" } else { "KeyGenLite" }, "via": "seed", "xi": jbytes(&xi), "pk": jbytes(&pkb), "sk": jbytes(&skb)}));
                out.ev(json!({"ev": "KeyGenBoth", "xi": jbytes(&xi), "pk": hexs(&pkb), "sk": hexs(&skb), "pk2": hexs(&pk2), "sk2": hexs(&sk2), "rnglog": log}));
            }
            Err((loc, msg)) => out.ev(json!({"ev": "Panic", "call": "keygen", "xi": jbytes(&xi), "loc": loc, "msg": msg})),
        }
    }
}

// ------------------------------------------------------------------------------- C03
/// length and SHAKE256 digest of a byte string (two strings are compared by the judge without carrying them in the trace)
fn dig(b: &[u8]) -> String { format!("n{}:{}", b.len(), hexs(&shake256(&[b], 16))) }

pub fn sign<S: MlDsa>(seed: u64, nfull: usize, nfactor: usize, allctx: bool, out: &mut Out) {
    let mut p = Prng::new(seed, 0x0300 + S::SET as u64);
    let xi = p.arr32();
    let (pk0, sk0) = S::keygen_seed(&xi);
    let skb = S::sk_bytes(&sk0);
    let sk_rt = S::sk_from(&skb).expect("round trip");
    // (ii) full recomputation: external (all four modes in rotation) and internal, both key provenances
    for i in 0..nfull {
        let sk = if i % 2 == 0 { &sk0 } else { &sk_rt };
        let rnd = if i % 5 == 4 { [0u8; 32] } else { p.arr32() };
        if i % 3 == 2 {
            let mp = msg_of(&mut p, i as u64 + seed);
            vh::trace_start();
            let r = guarded(|| S::internal_sign(sk, &mp, rnd));
            let att = vh::trace_take().iter().filter(|e| e.0 == "sign_attempt").count();
            match r {
                Ok(sig) => out.ev(json!({"ev": "SignInternal", "sk": jbytes(&skb), "mp": jbytes(&mp), "rnd": jbytes(&rnd), "sig": jbytes(&sig), "attempts": att})),
                Err((loc, msg)) => out.ev(json!({"ev": "Panic", "call": "internal_sign", "loc": loc, "msg": msg})),
            }
        } else {
            let mode = MODES[(i + seed as usize) % 4];
            let m = msg_of(&mut p, i as u64 * 3 + seed);
            let ctx = ctx_of(&mut p, i as u64 + seed);
            let mut rng = ScriptRng::new(&rnd);
            vh::trace_start();
            let r = guarded(|| S::sign(sk, &mut rng, &m, &ctx, mode));
            let att = vh::trace_take().iter().filter(|e| e.0 == "sign_attempt").count();
            match r {
                Ok(res) => out.ev(json!({"ev": "Sign", "sk": jbytes(&skb), "m": jbytes(&m), "ctx": jbytes(&ctx), "mode": mode, "rnd": jbytes(&rnd),
                    "ok": res.is_ok(), "sig": jbytes(&res.unwrap_or_default()), "attempts": att, "rnglog": rng.log_json()})),
                Err((loc, msg)) => out.ev(json!({"ev": "Panic", "call": "sign", "loc": loc, "msg": msg})),
            }
        }
    }
    // (ii') accepted private-key strings the library did NOT produce: Algorithm 7 uses rho, K, tr, t0 exactly as stored, so a
    // loader that "repairs" or recomputes a section (tr from the public key, t0 from s1/s2, ...) signs differently.  Only
    // modifications under which the rejection loop still terminates: tr and K arbitrary, one low bit of one t0 field.
    {
        let c = crate::msgfmt::bit_length(2 * S::ETA);
        let t0_off = 128 + 32 * c * (S::L + S::K);
        let variants: Vec<(&str, Box<dyn Fn(&mut Vec<u8>, &mut Prng)>)> = vec![
            ("tr section random", Box::new(|b: &mut Vec<u8>, p: &mut Prng| { for x in b[64..128].iter_mut() { *x = p.below(256) as u8; } })),
            ("K section zero", Box::new(|b: &mut Vec<u8>, _p: &mut Prng| { for x in b[32..64].iter_mut() { *x = 0; } })),
            ("one low bit of a t0 field flipped", Box::new(move |b: &mut Vec<u8>, p: &mut Prng| { let f = p.below(256 * S::K as u64) as usize; let bit = t0_off * 8 + 13 * f; b[bit / 8] ^= 1 << (bit % 8); })),
            // every coefficient of the first t0 polynomial at its upper end 2^12 (field value 0): hints and ||c t0|| far from honest
            ("first t0 polynomial all 2^12", Box::new(move |b: &mut Vec<u8>, _p: &mut Prng| { for x in b[t0_off..t0_off + 416].iter_mut() { *x = 0; } })),
        ];
        let take: Vec<usize> = if nfull > 6 { vec![0, 1, 2, 3] } else { vec![(seed as usize) % 3, 3] };
        for vi in take {
            let (name, f) = &variants[vi];
            let mut b = skb.clone();
            f(&mut b, &mut p);
            let m = msg_of(&mut p, 77 + vi as u64);
            let ctx = ctx_of(&mut p, vi as u64 + seed);
            let mode = MODES[(vi + seed as usize) % 4];
            let rnd = p.arr32();
            let mut rng = ScriptRng::new(&rnd);
            vh::trace_start();
            let r = guarded(|| S::sk_from(&b).map(|sk| S::sign(&sk, &mut rng, &m, &ctx, mode)));
            let att = vh::trace_take().iter().filter(|e| e.0 == "sign_attempt").count();
            match r {
                Ok(Ok(res)) => out.ev(json!({"ev": "Sign", "what": format!("foreign private key: {}", name), "sk": jbytes(&b), "m": jbytes(&m), "ctx": jbytes(&ctx), "mode": mode, "rnd": jbytes(&rnd),
                    "ok": res.is_ok(), "sig": jbytes(&res.unwrap_or_default()), "attempts": att, "rnglog": rng.log_json()})),
                Ok(Err(e)) => out.ev(json!({"ev": "Panic", "call": "sk try_from_bytes", "loc": "refused an acceptable private key", "msg": e})),
                Err((loc, msg)) => out.ev(json!({"ev": "Panic", "call": "sign", "loc": loc, "msg": msg})),
            }
        }
    }
    // (i) factoring through the internal interface: grid of (mode, |ctx|, |M|)
    // (ctx length, message class or -1 = empty / -2 = one byte, restriction to one mode)
    let mut grid: Vec<(usize, i64, Option<&'static str>)> = vec![];
    if allctx { for c in 0..256 { grid.push((c, c as i64, None)); } }
    for i in 0..nfactor { grid.push(([0usize, 1, 2, 127, 128, 254, 255][i % 7], i as i64, if allctx || i < 28 { None } else { Some(MODES[i % 4]) })); }
    // EVERY context length with an empty and a one-byte message in pure mode, and with a pre-hash mode in rotation: the pieces
    // (tr, domain byte, length byte, ctx, M or OID, PH(M)) are absorbed one after the other, so a slip at a block boundary of
    // the sponge or in the handling of an empty piece shows for particular (|ctx|, |M|) only
    if nfactor > 0 { for c in 0..256usize { grid.push((c, -1, Some("pure"))); grid.push((c, -2, Some("pure"))); grid.push((c, c as i64, Some(MODES[1 + c % 3]))); } }
    for (clen, mclass, only) in grid.iter() {
        for mode in MODES {
            if let Some(o) = only { if *o != mode { continue; } }
            let ctx = p.bytes(*clen);
            let m = match *mclass { -1 => vec![], -2 => p.bytes(1), c => msg_of(&mut p, c as u64) };
            let rnd = p.arr32();
            let mut rng = ScriptRng::new(&rnd);
            let r = guarded(|| {
                let ext = S::sign(&sk0, &mut rng, &m, &ctx, mode);
                let mp = format_msg(mode, &ctx, &m);
                let int = S::internal_sign(&sk0, &mp, rnd);
                // Verify = Verify_internal o FormatMsg on the same tuple
                let e = ext.clone().unwrap_or_default();
                let (ve, vi) = (S::verify(&pk0, &m, &e, &ctx, mode), S::internal_verify(&pk0, &mp, &e));
                (ext, mp, int, ve, vi)
            });
            match r {
                Ok((ext, mp, int, ve, vi)) => out.ev(json!({"ev": "SignFactor", "mode": mode, "ctx": jbytes(&ctx), "m": jbytes(&m), "mp": jbytes(&mp),
                    "ok": ext.is_ok(), "ext": dig(&ext.unwrap_or_default()), "int": dig(&int), "ver_ext": ve, "ver_int": vi, "rnglog": rng.log_json()})),
                Err((loc, msg)) => out.ev(json!({"ev": "Panic", "call": "sign", "loc": loc, "msg": msg})),
            }
        }
    }
    // determinism: the same inputs after unrelated intervening operations, and on a cloned /
    // re-deserialised key object, give the same bytes
    for i in 0..4u64 {
        let m = msg_of(&mut p, i);
        let rnd = p.arr32();
        let a = S::sign(&sk0, &mut ScriptRng::new(&rnd), &m, b"ctx", MODES[i as usize % 4]).unwrap();
        let _ = S::keygen_seed(&p.arr32());
        let _ = S::sign(&sk_rt, &mut ScriptRng::new(&p.arr32()), b"other", b"", "pure");
        let b = S::sign(&sk_rt.clone(), &mut ScriptRng::new(&rnd), &m, b"ctx", MODES[i as usize % 4]).unwrap();
        out.ev(json!({"ev": "Same", "what": "sign repeated after other operations, on a round-tripped clone", "a": hexs(&a), "b": hexs(&b)}));
        // ... and IMMEDIATELY again with the same randomness (the deterministic variant, a replayed or stuck generator):
        // Algorithm 2 is a function of its inputs, whatever the previous call was
        let r = guarded(|| (S::sign(&sk0, &mut ScriptRng::new(&rnd), &m, b"ctx", MODES[i as usize % 4]).unwrap_or_default(),
                            S::sign(&sk0, &mut ScriptRng::new(&rnd), &m, b"ctx", MODES[i as usize % 4]).unwrap_or_default()));
        match r {
            Ok((c, d)) => { out.ev(json!({"ev": "Same", "what": "sign called twice in a row with the same randomness", "a": hexs(&a), "b": hexs(&c)}));
                            out.ev(json!({"ev": "Same", "what": "sign called twice in a row with the same randomness (second call)", "a": hexs(&a), "b": hexs(&d)})); }
            Err((loc, msg)) => out.ev(json!({"ev": "Panic", "call": "sign", "loc": loc, "msg": msg})),
        }
    }
}

/// Rare-event hunt: sign many messages with the attempt hook on; every attempt log is judged by the
/// cheap SignAttempts rule, and the rarest signatures (hint rejections, boundary norms, hint weight
/// omega, most attempts) are emitted for full recomputation by the TLA+ Sign state machine.
pub fn hunt<S: MlDsa>(seed: u64, nsign: usize, nfull: usize, out: &mut Out) {
    let mut p = Prng::new(seed, 0x0310 + S::SET as u64);
    let (_pk, sk0) = S::keygen_seed(&p.arr32());
    let skb0 = S::sk_bytes(&sk0);
    // second key: the same key with its first t0 polynomial at the upper end (bytes zeroed: t0 = 2^12 everywhere), which
    // FIPS 204 accepts; its c*t0 is large, so the SECOND rejection test of the loop (rare for honest keys) fires often
    let mut skb1 = skb0.clone();
    let t0_start = 128 + (S::L + S::K) * 32 * vh::bit_length(2 * S::ETA);
    for x in skb1[t0_start..t0_start + 416].iter_mut() { *x = 0; }
    let sk1 = S::sk_from(&skb1).expect("accepted");
    // third key: first t0 polynomial at the upper end and ALL OTHER t0 polynomials zero (field value 2^12): few hints outside the
    // first polynomial, so attempts whose ||c t0|| is around gamma2 are not masked by the hint-weight rejection
    let mut skb2 = skb1.clone();
    for i in 256..S::K * 256 { let bit = t0_start * 8 + i * 13; for t in 0..13 { let (by, bi) = ((bit + t) / 8, (bit + t) % 8); skb2[by] = (skb2[by] & !(1 << bi)) | ((((4096u32 >> t) & 1) as u8) << bi); } }
    let sk2 = S::sk_from(&skb2).expect("accepted");
    let (e1, e2) = (S::GAMMA1 - S::beta(), S::GAMMA2 - S::beta());
    let mut rare: Vec<(i64, Vec<u8>, [u8; 32], Vec<u8>, usize, u32)> = vec![];
    for i in 0..nsign {
        let (sk, skb) = match i % 4 { 1 => (&sk1, &skb1), 3 => (&sk2, &skb2), _ => (&sk0, &skb0) };
        let mp = p.bytes(8 + (i % 40));
        let rnd = p.arr32();
        vh::trace_start();
        let r = guarded(|| S::internal_sign(sk, &mp, rnd));
        let evs: Vec<[i64; 8]> = vh::trace_take().iter().filter(|e| e.0 == "sign_attempt").map(|e| e.1).collect();
        let Ok(sig) = r else { let (loc, msg) = r.err().unwrap(); out.ev(json!({"ev": "Panic", "call": "internal_sign", "loc": loc, "msg": msg})); continue };
        let att: Vec<Value> = evs.iter().map(|a| json!([a[0], a[1], a[2], a[3], a[4], a[5]])).collect();
        out.ev(json!({"ev": "SignAttempts", "set": S::SET, "attempts": att}));
        // rarity score
        let mut score = evs.len() as i64;
        let mut classes = 0u32;
        for a in evs.iter() {
            if a[5] == 2 { score += 1000; classes |= 1; }
            if a[1] == (e1 - 1) as i64 || a[1] == e1 as i64 { score += 300; classes |= 2; }
            if a[2] == (e2 - 1) as i64 || a[2] == e2 as i64 { score += 300; classes |= 4; }
            if a[4] == S::OMEGA as i64 || a[4] == S::OMEGA as i64 + 1 { score += 300; classes |= 8; }
            if a[3] == S::GAMMA2 as i64 - 1 || a[3] == S::GAMMA2 as i64 { score += 300; classes |= 16; }
        }
        if a_ct0_big(&evs, S::GAMMA2) { score += 200; classes |= 16; }
        rare.push((score, [skb.clone(), mp].concat(), rnd, sig, evs.len(), classes));
    }
    // one representative of every rarity CLASS is recomputed in full (a slip on one rare path must not hide behind another)
    rare.sort_by(|a, b| b.0.cmp(&a.0));
    let mut picked: Vec<usize> = vec![];
    for class in 0..6usize {
        let hit = rare.iter().enumerate().position(|(i, r)| !picked.contains(&i) && match class {
            0 => r.5 & 1 != 0, 1 => r.5 & 2 != 0, 2 => r.5 & 4 != 0, 3 => r.5 & 8 != 0, 4 => r.5 & 16 != 0, _ => true });
        if let Some(i) = hit { picked.push(i); }
    }
    for i in 0..rare.len() { if picked.len() >= nfull.max(6) { break; } if !picked.contains(&i) { picked.push(i); } }
    for i in picked.into_iter().take(nfull.max(6)) {
        let (_, skmp, rnd, sig, n, _) = &rare[i];
        let (skb, mp) = skmp.split_at(S::SK_LEN);
        out.ev(json!({"ev": "SignInternal", "hunted": true, "sk": jbytes(skb), "mp": jbytes(mp), "rnd": jbytes(rnd), "sig": jbytes(sig), "attempts": n}));
    }
}

fn a_ct0_big(evs: &[[i64; 8]], g2: i32) -> bool { evs.iter().any(|a| a[3] >= g2 as i64 - 8 && a[3] >= 0) }

/// events from ACVP sigGen vectors run through the library (the driver passes a pre-digested file)
pub fn acvp_sign<S: MlDsa>(path: &str, limit: usize, offset: usize, out: &mut Out) {
    let v: Value = serde_json::from_str(&std::fs::read_to_string(path).expect("acvp file")).unwrap();
    let mut n = 0;
    for t in v.as_array().unwrap().iter().filter(|t| t["set"].as_u64().unwrap() as u32 == S::SET).skip(offset) {
        if n >= limit { break; }
        n += 1;
        let skb = unhex(t["sk"].as_str().unwrap());
        let mp = unhex(t["message"].as_str().unwrap());
        let rnd: [u8; 32] = unhex(t["rnd"].as_str().unwrap()).try_into().unwrap();
        let r = guarded(|| { let sk = S::sk_from(&skb).expect("acvp sk"); S::internal_sign(&sk, &mp, rnd) });
        match r {
            Ok(sig) => out.ev(json!({"ev": "SignInternal", "sk": jbytes(&skb), "mp": jbytes(&mp), "rnd": jbytes(&rnd), "sig": jbytes(&sig), "acvp_tc": t["tc"]})),
            Err((loc, msg)) => out.ev(json!({"ev": "Panic", "call": "internal_sign", "loc": loc, "msg": msg})),
        }
    }
}

// ------------------------------------------------------------------------------- C02
pub struct Forged { pub pk: Vec<u8>, pub sig: Vec<u8> }

/// A signature that FIPS 204 Verify accepts for the public key (rho, t1 = 0) iff ||z|| < gamma1 - beta:
/// c~ := H(mu || w1Encode(UseHint(h, A z))).  Built with the harness's own arithmetic.
pub fn forge<S: MlDsa>(rho: &[u8; 32], z: &[Poly], h: &[Poly], mp: &[u8]) -> Forged {
    let mut pk = rho.to_vec();
    pk.resize(S::PK_LEN, 0);
    let a_hat = S::expand_a(rho);
    let w = refmath::mat_vec(&a_hat, z);
    let w1: Vec<Poly> = (0..S::K).map(|i| core::array::from_fn(|n| vh::use_hint(S::GAMMA2, h[i][n], w[i][n] as i32))).collect();
    let w1enc = S::w1_encode(&w1);
    let tr = shake256(&[&pk], 64);
    let mu = shake256(&[&tr, mp], 64);
    let ct = shake256(&[&mu, &w1enc], S::LAMBDA / 4);
    Forged { pk, sig: S::sig_encode(&ct, z, h) }
}

fn rand_z<S: MlDsa>(p: &mut Prng, bound: i32) -> Vec<Poly> {
    (0..S::L).map(|_| core::array::from_fn(|_| p.range(-(bound as i64), bound as i64) as i32)).collect()
}
fn rand_h<S: MlDsa>(p: &mut Prng, weight: usize) -> Vec<Poly> {
    let mut h: Vec<Poly> = vec![[0i32; 256]; S::K];
    let mut placed = 0;
    while placed < weight { let (i, n) = (p.below(S::K as u64) as usize, p.below(256) as usize); if h[i][n] == 0 { h[i][n] = 1; placed += 1; } }
    h
}

fn emit_verify<S: MlDsa>(out: &mut Out, family: &str, pkb: &[u8], m: &[u8], sig: &[u8], ctx: &[u8], mode: &str, internal: bool) {
    let r = guarded(|| {
        let pk = S::pk_from(pkb).expect("every pk-length string deserialises");
        if internal { S::internal_verify(&pk, m, sig) } else { S::verify(&pk, m, sig, ctx, mode) }
    });
    let mut e = if internal {
        json!({"ev": "VerifyInternal", "family": family, "pk": jbytes(pkb), "mp": jbytes(m), "sig": jbytes(sig)})
    } else {
        json!({"ev": "Verify", "family": family, "pk": jbytes(pkb), "m": jbytes(m), "ctx": jbytes(ctx), "mode": mode, "sig": jbytes(sig)})
    };
    match &r { Ok(b) => e["res"] = json!(b), Err((loc, msg)) => e["panic"] = json!(format!("{}: {}", loc, msg)) };
    out.ev(e);
}

/// hint-section malformations of Algorithm 21, applied to the last omega+k bytes of `sig`
pub fn hint_mutants<S: MlDsa>(sig: &[u8], p: &mut Prng) -> Vec<(String, Vec<u8>)> {
    let om = S::OMEGA as usize;
    let hs = S::SIG_LEN - om - S::K;
    let y = &sig[hs..];
    let cnt = |i: usize| y[om + i] as usize;
    let total = cnt(S::K - 1);
    let mut v: Vec<(String, Vec<u8>)> = vec![];
    let mut mk = |name: &str, f: &dyn Fn(&mut [u8])| { let mut s = sig.to_vec(); f(&mut s[hs..]); if s != sig { v.push((name.to_string(), s)); } };
    // per-polynomial count decreasing / beyond omega, at the first, a middle and the last polynomial
    for i in [0, S::K / 2, S::K - 1] {
        mk(&format!("count[{}] = omega+1", i), &|y| y[om + i] = om as u8 + 1);
        mk(&format!("count[{}] = 255", i), &|y| y[om + i] = 255);
        if i > 0 && cnt(i - 1) > 0 { mk(&format!("count[{}] below previous", i), &|y| y[om + i] = y[om + i - 1] - 1); }
    }
    // index order inside a polynomial: equal and descending neighbours
    for i in 0..S::K {
        let lo = if i == 0 { 0 } else { cnt(i - 1) };
        if cnt(i) >= lo + 2 {
            mk(&format!("equal adjacent indices in poly {}", i), &|y| y[lo + 1] = y[lo]);
            mk(&format!("descending indices in poly {}", i), &|y| y.swap(lo, lo + 1));
            let hi = cnt(i);
            mk(&format!("descending last pair in poly {}", i), &|y| y.swap(hi - 2, hi - 1));
        }
    }
    // non-zero byte in unused slots: first unused, last unused, random unused
    if total < om {
        mk("non-zero first unused slot", &|y| y[total] = 1);
        mk("non-zero last unused slot", &|y| y[om - 1] = 200);
        let r = total + p.below((om - total) as u64) as usize;
        mk("non-zero random unused slot", &|y| y[r] = 7);
    }
    // counts of EMPTY polynomials lowered (a decoder that only ever advances would not notice)
    for i in 1..S::K {
        if cnt(i) == cnt(i - 1) && cnt(i) > 0 {
            mk(&format!("count of empty poly {} lowered by one", i), &|y| y[om + i] -= 1);
            mk(&format!("count of empty poly {} set to 0", i), &|y| y[om + i] = 0);
        }
    }
    // one strictly increasing run through the whole section, counts included, with over-large counts: a decoder
    // that checks the counts against omega too late walks (and reads) past the end of the section
    mk("strictly increasing run through positions and counts (counts 200, 201, ...)", &|y| { for i in 0..om { y[i] = i as u8; } for i in 0..S::K { y[om + i] = (200 + i) as u8; } });
    mk("strictly increasing run, first count 255", &|y| { for i in 0..om { y[i] = i as u8; } for i in 0..S::K { y[om + i] = (248 + i.min(7)) as u8; } y[om] = 255; });
    mk("all positions increasing, last count omega + k + 1", &|y| { for i in 0..om { y[i] = i as u8; } for i in 0..S::K { y[om + i] = om as u8; } y[om + S::K - 1] = (om + S::K + 1) as u8; });
    // a count raised by one so that it swallows a zero padding byte (index 0 after a larger index)
    if total < om && total > 0 { mk("last count raised over padding", &|y| y[om + S::K - 1] += 1); }
    v
}

/// Hint SECTIONS (omega + k bytes) whose positions form one strictly increasing run (so that no ordering test fires early)
/// and whose count vector is well-formed up to a break index j, over-large at j, then continues in one of four ways, with
/// the LAST count chosen independently (a decoder may bound only the final count, or only the first, or bound each count
/// after having consumed the row): break index x value x continuation x last count, on two position bases.
pub fn hint_count_lattice<S: MlDsa>(nbases: usize) -> Vec<(String, Vec<u8>)> {
    let (om, k) = (S::OMEGA as usize, S::K);
    let grid = [om + 1, om + k - 2, om + k - 1, om + k, om + k + 1, 200, 254, 255];
    let mut v = vec![];
    for o in [0usize, 3].into_iter().take(nbases) {
        for j in 0..k {
            for &g in grid.iter() {
                for cont in ["+1", "+2", "same", "omega"] {
                    for last in ["0", "omega-1", "omega", "cont"] {
                        if j == k - 1 && last != "cont" { continue; }
                        let mut y = vec![0u8; om + k];
                        for i in 0..om { y[i] = (i + o) as u8; }
                        let mut prev = 0usize;
                        for i in 0..k {
                            let c = if i < j { (i + 1) * (om / k) } else if i == j { g } else {
                                match cont { "+1" => (prev + 1).min(255), "+2" => (prev + 2).min(255), "same" => prev, _ => om } };
                            let c = if i == k - 1 && i > j { match last { "0" => 0, "omega-1" => om - 1, "omega" => om, _ => c } } else { c };
                            y[om + i] = c as u8;
                            prev = c;
                        }
                        v.push((format!("count lattice: base +{}, count[{}] = {}, then {}, last {}", o, j, g, cont, last), y));
                    }
                }
            }
        }
    }
    v
}

pub fn verify<S: MlDsa>(seed: u64, nacc: usize, nrand: usize, stress: bool, out: &mut Out) {
    let mut p = Prng::new(seed, 0x0200 + S::SET as u64);
    let (g1, beta, om) = (S::GAMMA1, S::beta(), S::OMEGA as usize);
    // family 1: honest signatures in all modes, + family 4 variations around them
    let xi = p.arr32();
    let (pk, sk) = S::keygen_seed(&xi);
    let pkb = S::pk_bytes(&pk);
    for i in 0..nacc.max(4) {
        let mode = MODES[i % 4];
        let m = msg_of(&mut p, i as u64 + seed);
        let ctx = ctx_of(&mut p, i as u64);
        let sig = S::sign(&sk, &mut ScriptRng::new(&p.arr32()), &m, &ctx, mode).unwrap();
        emit_verify::<S>(out, "1 honest", &pkb, &m, &sig, &ctx, mode, false);
        if i == 0 {
            // 4: commitment hash bit, wrong mode / ph / ctx / message, over-long contexts
            let mut s2 = sig.clone(); s2[p.below((S::LAMBDA / 4) as u64) as usize] ^= 1 << p.below(8);
            emit_verify::<S>(out, "4 c~ bit flipped", &pkb, &m, &s2, &ctx, mode, false);
            // first, 32nd, 33rd and last byte of the commitment hash (its length depends on the parameter set)
            for pos in [0usize, 31, 32.min(S::LAMBDA / 4 - 1), S::LAMBDA / 4 - 1] {
                let mut s3 = sig.clone(); s3[pos] ^= 0x80;
                emit_verify::<S>(out, &format!("4 c~ byte {} changed", pos), &pkb, &m, &s3, &ctx, mode, false);
            }
            emit_verify::<S>(out, "4 other mode", &pkb, &m, &sig, &ctx, MODES[(i + 1) % 4], false);
            let mut c2 = ctx.clone(); c2.push(0);
            if c2.len() <= 255 { emit_verify::<S>(out, "4 ctx extended", &pkb, &m, &sig, &c2, mode, false); }
            for n in [256usize, 257, 511, 512] {
                let long = vec![0x5au8; n];
                emit_verify::<S>(out, "4 ctx too long", &pkb, &m, &sig, &long, mode, false);
            }
            // 3 on an honest base: every hint malformation class
            for (name, s3) in hint_mutants::<S>(&sig, &mut p) {
                emit_verify::<S>(out, &format!("3 hint (honest base): {}", name), &pkb, &m, &s3, &ctx, mode, false);
            }
        }
    }
    // family 2: t1 = 0 forgeries with one coefficient of z at the norm boundary
    let rho = p.arr32();
    let edge = g1 - beta;
    let places = [(0usize, 0usize), (0, 255), (S::L - 1, 0), (S::L - 1, 255)];
    let vals: [(i32, &str); 6] = [(edge - 1, "gamma1-beta-1 (accept)"), (-(edge - 1), "-(gamma1-beta-1) (accept)"), (edge, "gamma1-beta (reject)"),
                                 (-edge, "-(gamma1-beta) (reject)"), (g1, "gamma1 (reject)"), (-g1 + 1, "-gamma1+1 (reject)")];
    let mut k = 0;
    for (vi, (val, name)) in vals.iter().enumerate() {
        for (pi, (j, n)) in places.iter().enumerate() {
            // accepting cases cost a full TLC evaluation: rotate the placement instead of taking the product
            if vi < 2 && (pi + vi + seed as usize) % 4 >= nacc.min(4) { continue; }
            let mut z = rand_z::<S>(&mut p, edge - 1);
            z[*j][*n] = *val;
            let h = rand_h::<S>(&mut p, [0usize, 3, om][k % 3]);
            k += 1;
            let mp = msg_of(&mut p, k as u64);
            let f = forge::<S>(&rho, &z, &h, &mp);
            emit_verify::<S>(out, &format!("2 forged t1=0, z[{}][{}] = {}", j, n, name), &f.pk, &mp, &f.sig, &[], "pure", true);
        }
    }
    // family 2z: t1 = 0 forgeries whose response vector has all-zero polynomials (first one zero; only the last one
    // non-zero): FIPS-valid, and exactly the inputs on which a product routine that special-cases zero columns goes wrong
    {
        let mut pats: Vec<Vec<bool>> = vec![(0..S::L).map(|x| x == 0).collect()];
        if nacc > 2 { pats.push((0..S::L).map(|x| x != S::L - 1).collect()); for j in 1..S::L - 1 { pats.push((0..S::L).map(|x| x == j).collect()); } }
        for pat in pats {
            let mut z = rand_z::<S>(&mut p, edge - 1);
            for (j, zero) in pat.iter().enumerate() { if *zero { z[j] = [0i32; 256]; } }
            let h = rand_h::<S>(&mut p, 2);
            k += 1;
            let mp = msg_of(&mut p, k as u64);
            let f = forge::<S>(&rho, &z, &h, &mp);
            emit_verify::<S>(out, &format!("2z forged t1=0, zero polynomials in z at {:?} (accept)", pat.iter().enumerate().filter(|(_, z)| **z).map(|(j, _)| j).collect::<Vec<_>>()), &f.pk, &mp, &f.sig, &[], "pure", true);
        }
    }
    // family 3 on a forged base with hint weight exactly omega (accept) and its malformations (reject)
    {
        let z = rand_z::<S>(&mut p, edge - 1);
        let h = rand_h::<S>(&mut p, om);
        let mp = msg_of(&mut p, 9);
        let f = forge::<S>(&rho, &z, &h, &mp);
        emit_verify::<S>(out, "3 forged, hint weight = omega (accept)", &f.pk, &mp, &f.sig, &[], "pure", true);
        for (name, s3) in hint_mutants::<S>(&f.sig, &mut p) {
            emit_verify::<S>(out, &format!("3 hint (forged base): {}", name), &f.pk, &mp, &s3, &[], "pure", true);
        }
        // weight omega concentrated in one polynomial / spread with empty polynomials
        let mut h1: Vec<Poly> = vec![[0i32; 256]; S::K];
        for n in 0..om { h1[S::K - 1][255 - n] = 1; }
        let f1 = forge::<S>(&rho, &z, &h1, &mp);
        emit_verify::<S>(out, "3 forged, omega hints all in the last polynomial (accept)", &f1.pk, &mp, &f1.sig, &[], "pure", true);
    }
    // forged base whose hints sit in the first and last polynomial only (every polynomial between is empty)
    {
        let z = rand_z::<S>(&mut p, edge - 1);
        let mut h: Vec<Poly> = vec![[0i32; 256]; S::K];
        for n in [3usize, 77, 200] { h[0][n] = 1; }
        for n in [5usize, 250] { h[S::K - 1][n] = 1; }
        let mp = msg_of(&mut p, 11);
        let f = forge::<S>(&rho, &z, &h, &mp);
        emit_verify::<S>(out, "3 forged, hints in first and last polynomial only (accept)", &f.pk, &mp, &f.sig, &[], "pure", true);
        for (name, s3) in hint_mutants::<S>(&f.sig, &mut p) {
            if name.contains("empty poly") || name.contains("below previous") { emit_verify::<S>(out, &format!("3 hint (sparse forged base): {}", name), &f.pk, &mp, &s3, &[], "pure", true); }
        }
    }
    // family 4f: a forged (t1 = 0) base, where the commitment the verifier recomputes does NOT depend on c~: every
    // single byte of c~ is then an independent test of the final comparison (first, 32nd, 33rd, last byte, a middle one)
    {
        let z = rand_z::<S>(&mut p, edge - 1);
        let h = rand_h::<S>(&mut p, 2);
        let mp = msg_of(&mut p, 21);
        let f = forge::<S>(&rho, &z, &h, &mp);
        let n = S::LAMBDA / 4;
        for pos in [0usize, 15, 31, 32.min(n - 1), n / 2 + 9, n - 1] {
            for bit in [0u8, 7] {
                let mut s3 = f.sig.clone(); s3[pos] ^= 1 << bit;
                emit_verify::<S>(out, &format!("4f forged base, c~ byte {} bit {} changed (reject)", pos, bit), &f.pk, &mp, &s3, &[], "pure", true);
            }
        }
        // changes of c~ that PRESERVE an aggregate of its bytes (sum, XOR, multiset): a final comparison folded into one
        // accumulator instead of byte-by-byte equality accepts exactly these
        let (i, j) = (3usize, n - 5);
        let mut muts: Vec<(&str, Vec<u8>)> = vec![];
        { let mut t = f.sig.clone(); t[i] = t[i].wrapping_add(1); t[j] = t[j].wrapping_sub(1); muts.push(("+1 / -1 on two bytes (sum preserved)", t)); }
        { let mut t = f.sig.clone(); t[i] ^= 0x20; t[j] ^= 0x20; muts.push(("the same bit flipped in two bytes (XOR preserved)", t)); }
        { let mut t = f.sig.clone(); let k = (0..n).find(|&k| t[k] != t[i]).unwrap_or(j); t.swap(i, k); muts.push(("two unequal bytes swapped (multiset preserved)", t)); }
        { let mut t = f.sig.clone(); t[..n].rotate_left(1); muts.push(("c~ rotated by one byte", t)); }
        { let mut t = f.sig.clone(); let d = 0x80u8.min(255 - t[i]).max(1); t[i] = t[i].wrapping_add(d); t[i + 1] = t[i + 1].wrapping_sub(d); muts.push(("+d / -d on adjacent bytes", t)); }
        for (name, t) in muts {
            if t[..n] != f.sig[..n] { emit_verify::<S>(out, &format!("4f forged base, c~ changed with an aggregate preserved: {} (reject)", name), &f.pk, &mp, &t, &[], "pure", true); }
        }
    }
    // family 3u: hint bits toggled on coefficients whose low part sits on a boundary of UseHint (r0 = 0, +-1, gamma2,
    // -gamma2+1): FIPS 204 rejects every one (the commitment changes), an implementation whose UseHint slips at such a
    // point accepts.  The coefficients are found with the harness's arithmetic in a pool of honest signatures.
    {
        let t1 = S::pk_decode(&pkb).unwrap();
        let a_hat = S::expand_a(&xi_rho::<S>(&pkb));
        let g2 = S::GAMMA2 as i64;
        let mut seen: Vec<i64> = vec![];
        'pool: for k in 0..1200u32 {
            let m = k.to_le_bytes();
            let sig = S::sign(&sk, &mut ScriptRng::new(&p.arr32()), &m, b"", "pure").unwrap();
            let Some((ct, z, h)) = S::sig_decode(&sig) else { continue };
            let c = vh::sample_in_ball::<false>(S::TAU, &ct);
            let az = refmath::mat_vec(&a_hat, &z);
            let ch = refmath::ntt(&c);
            for i in 0..S::K {
                let t1s: Poly = core::array::from_fn(|n| t1[i][n] << 13);
                let th = refmath::ntt(&t1s);
                let prod: [i64; 256] = core::array::from_fn(|n| ch[n] * th[n] % refmath::Q);
                let ct1 = refmath::inv_ntt(&prod);
                for n in 0..256 {
                    let wp = refmath::modq(az[i][n] - ct1[n]);
                    let r0 = { let t = wp % (2 * g2); if t > g2 { t - 2 * g2 } else { t } };
                    if [0i64, 1, -1, g2, -g2 + 1].contains(&r0) && !seen.contains(&r0) && wp != refmath::Q - 1 {
                        let mut h2 = h.clone();
                        h2[i][n] ^= 1;
                        let wt: i32 = h2.iter().map(|p| p.iter().sum::<i32>()).sum();
                        if wt > S::OMEGA { continue; }
                        let s2 = S::sig_encode(&ct, &z, &h2);
                        emit_verify::<S>(out, &format!("3u hint bit toggled where r0 = {} (reject)", r0), &pkb, &m, &s2, &[], "pure", false);
                        seen.push(r0);
                        if seen.len() >= 5 { break 'pool; }
                        continue 'pool;
                    }
                }
            }
        }
    }
    // family 4w: over-long contexts with a signature made over the WRAPPED length byte (what a verifier
    // that forgets the 255-byte rule, or applies it off by one, would reconstruct)
    for (i, n) in [256usize, 257, 300, 511, 512, 65536 + 7].iter().enumerate() {
        let ctx = p.bytes(*n);
        let m = msg_of(&mut p, i as u64);
        let mode = MODES[i % 4];
        let mut mp = format_msg(mode, &ctx, &m);
        mp[1] = (*n % 256) as u8;
        let sig = S::internal_sign(&sk, &mp, p.arr32());
        emit_verify::<S>(out, &format!("4w context of {} bytes, signature over the wrapped length byte", n), &pkb, &m, &sig, &ctx, mode, false);
    }
    // random byte strings as signatures (and as public keys)
    for i in 0..nrand {
        let sig = p.bytes(S::SIG_LEN);
        let pkr = if i % 2 == 0 { pkb.clone() } else { p.bytes(S::PK_LEN) };
        emit_verify::<S>(out, "random bytes", &pkr, &p.bytes(5), &sig, &[], "pure", false);
    }
    // family 5: lazy-reduction stress (sparse-coset construction, DESIGN section 5 F2)
    if stress && S::SET == 87 {
        let w1: [[i32; 4]; 7] = [[275033, 332676, -481626, 317000], [383811, -268708, 283131, 65421], [-209744, -399416, -236512, 227585],
            [163466, 45434, -328266, -153360], [445643, 455576, -439727, 402819], [-176246, -373103, -172428, -296322], [-209730, 255762, -124882, -306448]];
        let w2: [[i32; 4]; 7] = [[275033, 332676, -481626, 317000], [-493341, -472940, 56262, 92665], [147053, -241238, -269924, 480673],
            [-406821, -337689, 293037, -77000], [206793, 408304, -461119, 368242], [482199, 414728, 69784, -457438], [259537, -207131, -186434, -488483]];
        for (wi, w) in [w1, w2].iter().enumerate() {
            let z: Vec<Poly> = (0..7).map(|j| { let mut a = [0i32; 256]; for c in 0..4 { a[64 * c] = w[j][c]; } a }).collect();
            let h: Vec<Poly> = vec![[0i32; 256]; S::K];
            let m = [1u8, 2, 3];
            let f = forge::<S>(&[7u8; 32], &z, &h, &format_msg("pure", &[], &m));
            emit_verify::<S>(out, &format!("5 aligned NTT residues, witness {}", wi + 1), &f.pk, &m, &f.sig, &[], "pure", false);
        }
    }
}

/// re-execute the call recorded in a replay file against the current library
pub fn replay_event<S: MlDsa>(e: &Value, out: &mut Out) {
    let b = |k: &str| vbytes(&e[k]);
    match e["ev"].as_str().unwrap() {
        "Verify" => emit_verify::<S>(out, "replay", &b("pk"), &b("m"), &b("sig"), &b("ctx"), e["mode"].as_str().unwrap(), false),
        "VerifyInternal" => emit_verify::<S>(out, "replay", &b("pk"), &b("mp"), &b("sig"), &[], "pure", true),
        "KeyGen" | "KeyGenLite" | "KeyGenBoth" => { let xi: [u8; 32] = b("xi").try_into().unwrap(); keygen::<S>(0, 0, 0, &[xi], out); }
        "SignInternal" => {
            let rnd: [u8; 32] = b("rnd").try_into().unwrap();
            let (skb, mp) = (b("sk"), b("mp"));
            match guarded(|| { let sk = S::sk_from(&skb).expect("sk"); S::internal_sign(&sk, &mp, rnd) }) {
                Ok(sig) => out.ev(json!({"ev": "SignInternal", "sk": jbytes(&skb), "mp": jbytes(&mp), "rnd": jbytes(&rnd), "sig": jbytes(&sig)})),
                Err((loc, msg)) => out.ev(json!({"ev": "Panic", "call": "internal_sign", "loc": loc, "msg": msg})),
            }
        }
        "Sign" | "SignFactor" => {
            let (skb, m, ctx, mode) = (if e["sk"].is_array() { b("sk") } else { vec![] }, b("m"), b("ctx"), e["mode"].as_str().unwrap().to_string());
            let rnd = if e["rnd"].is_array() { b("rnd") } else { vec![0u8; 32] };
            let r = guarded(|| {
                let sk = if skb.is_empty() { S::keygen_seed(&[1u8; 32]).1 } else { S::sk_from(&skb).expect("sk") };
                let mut rng = ScriptRng::new(&rnd);
                let res = S::sign(&sk, &mut rng, &m, &ctx, &mode);
                (S::sk_bytes(&sk), res, rng.log_json())
            });
            match r {
                Ok((skb, res, log)) => out.ev(json!({"ev": "Sign", "sk": jbytes(&skb), "m": jbytes(&m), "ctx": jbytes(&ctx), "mode": mode, "rnd": jbytes(&rnd),
                    "ok": res.is_ok(), "sig": jbytes(&res.unwrap_or_default()), "rnglog": log})),
                Err((loc, msg)) => out.ev(json!({"ev": "Panic", "call": "sign", "loc": loc, "msg": msg})),
            }
        }
        other => panic!("cannot replay event kind {}", other),
    }
}

fn xi_rho<S: MlDsa>(pkb: &[u8]) -> [u8; 32] { pkb[..32].try_into().unwrap() }

pub fn run(sub: &str, a: &Args) {
    if sub == "replayf" {
        let v: Value = serde_json::from_str(&std::fs::read_to_string(a.s("file", "")).expect("replay file")).unwrap();
        let set = v["replay"]["set"].as_u64().unwrap() as u32;
        let mut out = Out::create(&format!("{}/replay_{}.ndjson", a.s("out", "/verif/work/f"), set));
        for_set!(set, replay_event(&v["replay"]["event"], &mut out));
        println!("replay set={} events={}", set, out.finish());
        return;
    }
    let seed = a.u("seed", 1);
    for set in a.sets() {
        let mut out = Out::create(&format!("{}/{}_{}.ndjson", a.s("out", "/verif/work/f"), sub, set));
        match sub {
            "keygen" => {
                let extra: Vec<[u8; 32]> = a.s("seeds", "").split(',').filter(|s| s.len() == 64).map(|s| unhex(s).try_into().unwrap()).collect();
                let (nf, nl) = (a.u("nfull", 1) as usize, a.u("nlite", 4) as usize);
                for_set!(set, keygen(seed, nf, nl, &extra, &mut out))
            }
            "sign" => {
                let (nf, nfa, all) = (a.u("nfull", 2) as usize, a.u("nfactor", 28) as usize, a.u("allctx", 0) == 1);
                for_set!(set, sign(seed, nf, nfa, all, &mut out));
                let (nh, nhf) = (a.u("nhunt", 0) as usize, a.u("nhuntfull", 2) as usize);
                if nh > 0 { for_set!(set, hunt(seed, nh, nhf, &mut out)); }
                let acvp = a.s("acvp", "");
                if !acvp.is_empty() { let (lim, off) = (a.u("nacvp", 1) as usize, a.u("acvpoff", 0) as usize); for_set!(set, acvp_sign(&acvp, lim, off, &mut out)); }
            }
            "verify" => {
                let (na, nr, st) = (a.u("nacc", 2) as usize, a.u("nrand", 4) as usize, a.u("stress", 1) == 1);
                for_set!(set, verify(seed, na, nr, st, &mut out))
            }
            _ => panic!("unknown"),
        }
        println!("{} set={} events={}", sub, set, out.finish());
    }
}
