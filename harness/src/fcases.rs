// Events judged by Layer F (the TLA+ transcription of FIPS 204 evaluated by TLC):
// KeyGen, SignInternal, VerifyInternal, Sign, Verify, Format.
use crate::api::*;
use crate::for_set;
use crate::util::*;
use fips204::verif_hooks as vh;
use serde_json::json;

fn msg_of(p: &mut Prng, class: u64) -> Vec<u8> {
    let n = match class % 6 { 0 => 0, 1 => 1, 2 => 135, 3 => 136, 4 => 137, _ => 33 + p.below(200) as usize };
    p.bytes(n)
}

pub fn honest<S: MlDsa>(seed: u64, nkey: usize, nsign: usize, nver: usize, out: &mut Out) {
    let mut p = Prng::new(seed, S::SET as u64);
    for i in 0..nkey.max(1) {
        let xi = p.arr32();
        let (pk, sk) = S::keygen_seed(&xi);
        let (pkb, skb) = (S::pk_bytes(&pk), S::sk_bytes(&sk));
        if i < nkey { out.ev(json!({"ev": "KeyGen", "xi": jbytes(&xi), "pk": jbytes(&pkb), "sk": jbytes(&skb)})); }
        for j in 0..nsign {
            let mp = msg_of(&mut p, (i * nsign + j) as u64 + seed);
            let rnd = p.arr32();
            vh::trace_start();
            let sig = S::internal_sign(&sk, &mp, rnd);
            let att = vh::trace_take().iter().filter(|e| e.0 == "sign_attempt").count();
            out.ev(json!({"ev": "SignInternal", "sk": jbytes(&skb), "mp": jbytes(&mp), "rnd": jbytes(&rnd), "sig": jbytes(&sig), "attempts": att}));
            if j < nver {
                let res = S::internal_verify(&pk, &mp, &sig);
                out.ev(json!({"ev": "VerifyInternal", "pk": jbytes(&pkb), "mp": jbytes(&mp), "sig": jbytes(&sig), "res": res}));
                let mut bad = sig.clone();
                let pos = p.below(bad.len() as u64) as usize;
                bad[pos] ^= 1 << p.below(8);
                let res = S::internal_verify(&pk, &mp, &bad);
                out.ev(json!({"ev": "VerifyInternal", "pk": jbytes(&pkb), "mp": jbytes(&mp), "sig": jbytes(&bad), "res": res}));
            }
        }
    }
}

pub fn run(a: &Args) {
    let seed = a.u("seed", 1);
    for set in a.sets() {
        let mut out = Out::create(&format!("{}/f_{}.ndjson", a.s("out", "/verif/work/f"), set));
        let (nk, ns, nv) = (a.u("nkey", 1) as usize, a.u("nsign", 1) as usize, a.u("nver", 1) as usize);
        for_set!(set, honest(seed, nk, ns, nv, &mut out));
        println!("fcases set={} events={}", set, out.finish());
    }
}
