// C15: native exhaustive sweeps of the coefficient-level functions against the TLC-certified
// piecewise tables (spec/ScalarTables.tla, mechanism M3) and of the reductions against their
// contracts (M4); a sample of evaluations, and every disagreement, is written as events that
// TLC re-judges from the definitions (spec/trace/TraceScalar.tla).
use crate::util::*;
use fips204::verif_hooks as vh;
use serde_json::{json, Value};
use std::sync::atomic::{AtomicU64, Ordering};
use std::sync::Mutex;

const Q: i64 = 8_380_417;
const PRE32: i64 = 2_143_289_344; // documented precondition |a| < PRE32 of the 32-bit reductions

#[derive(Clone, Debug)]
struct Piece { lo: i64, hi: i64, v1: i64, v0: i64, slope: i64 }
struct Table { pieces: Vec<Piece>, bot: i64 }
impl Table {
    fn load(v: &Value, bot: i64) -> Table {
        // TLC serialises a function 0..n / a sequence as an object keyed by index or as an array
        let mut items: Vec<(i64, Piece)> = vec![];
        let mk = |p: &Value| Piece { lo: p["lo"].as_i64().unwrap(), hi: p["hi"].as_i64().unwrap(), v1: p["v1"].as_i64().unwrap(), v0: p["v0"].as_i64().unwrap(), slope: p["slope"].as_i64().unwrap() };
        match v {
            Value::Object(m) => for (k, p) in m { items.push((k.parse().unwrap(), mk(p))); },
            Value::Array(a) => for (i, p) in a.iter().enumerate() { items.push((i as i64, mk(p))); },
            _ => panic!("bad table"),
        }
        items.sort_by_key(|x| x.0);
        Table { pieces: items.into_iter().map(|x| x.1).collect(), bot }
    }
    #[inline]
    fn eval(&self, x: i64) -> (i64, i64) {
        let (mut i, mut j) = (0usize, self.pieces.len() - 1);
        while i < j { let m = (i + j) / 2; if x <= self.pieces[m].hi { j = m } else { i = m + 1 } }
        let p = &self.pieces[i];
        if x < p.lo || x > p.hi { return (self.bot, self.bot); }
        (p.v1, if p.v0 == self.bot { self.bot } else { p.v0 + p.slope * (x - p.lo) })
    }
}

struct Tally { name: String, evals: AtomicU64, bad: Mutex<Vec<Value>>, nbad: AtomicU64 }
impl Tally {
    fn new(name: &str) -> Tally { Tally { name: name.into(), evals: AtomicU64::new(0), bad: Mutex::new(vec![]), nbad: AtomicU64::new(0) } }
    fn miss(&self, e: Value) { if self.nbad.fetch_add(1, Ordering::Relaxed) < 12 { self.bad.lock().unwrap().push(e); } }
}

/// run f(lo..hi) over [lo, hi) split across threads
fn par_range(lo: i64, hi: i64, f: &(dyn Fn(i64, i64) + Sync)) {
    let nt = std::thread::available_parallelism().map(|n| n.get()).unwrap_or(8).min(16) as i64;
    let step = (hi - lo + nt - 1) / nt;
    std::thread::scope(|s| { for t in 0..nt { let (a, b) = (lo + t * step, (lo + (t + 1) * step).min(hi)); if a < b { s.spawn(move || f(a, b)); } } });
}

fn ev_scalar(fnname: &str, g2: i64, eta: i64, x: i64, y: i64, got: Value) -> Value {
    json!({"ev": "Scalar", "fn": fnname, "g2": g2, "eta": eta, "x": x, "y": y, "got": got})
}

pub fn run(a: &Args) {
    let seed = a.u("seed", 1);
    let thorough = a.u("thorough", 0) == 1;
    let outdir = a.s("out", "/verif/work/scalar");
    let mut out = Out::create(&format!("{}/scalar.ndjson", outdir));
    let mut p = Prng::new(seed, 0x1500);
    let mut tallies: Vec<Tally> = vec![];
    let mut summary = serde_json::Map::new();

    for tf in a.s("tables", "").split(',').filter(|s| !s.is_empty()) {
        let tv: Value = serde_json::from_str(&std::fs::read_to_string(tf).expect("tables file")).unwrap();
        let bot = tv["bot"].as_i64().unwrap();
        let (g2, eta) = (tv["gamma2"].as_i64().unwrap(), tv["eta"].as_i64().unwrap());
        let g2i = g2 as i32;
        let p2r = Table::load(&tv["power2round"], bot);
        let dec = Table::load(&tv["decompose"], bot);
        let uh1 = Table::load(&tv["usehint1"], bot);
        let cm = Table::load(&tv["centermod"], bot);
        let c3 = Table::load(&tv["coeff3"], bot);

        // Power2Round on every r in Z_q (256 at a time through the vector interface)
        let t = Tally::new(&format!("power2round[g2={}]", g2));
        par_range(0, (Q + 255) / 256, &|a, b| { for blk in a..b {
            let arr: [i32; 256] = core::array::from_fn(|i| ((blk * 256 + i as i64).min(Q - 1)) as i32);
            let (r1, r0) = vh::power2round(&arr);
            for i in 0..256 { let e = p2r.eval(arr[i] as i64); if (r1[i] as i64, r0[i] as i64) != e {
                t.miss(ev_scalar("power2round", g2, eta, arr[i] as i64, 0, json!([r1[i], r0[i]]))); } }
            t.evals.fetch_add(256, Ordering::Relaxed); } });
        tallies.push(t);

        // Decompose / HighBits / LowBits / UseHint on r in [-2q, 3q): the value depends on r mod q only
        let t = Tally::new(&format!("decompose+high_bits+low_bits+use_hint[g2={}]", g2));
        par_range(-2 * Q, 3 * Q, &|a, b| { for r in a..b {
            let e = dec.eval(r.rem_euclid(Q));
            let ri = r as i32;
            let (r1, r0) = vh::decompose(g2i, ri);
            if (r1 as i64, r0 as i64) != e { t.miss(ev_scalar("decompose", g2, eta, r, 0, json!([r1, r0]))); }
            if vh::high_bits(g2i, ri) as i64 != e.0 { t.miss(ev_scalar("high_bits", g2, eta, r, 0, json!(vh::high_bits(g2i, ri)))); }
            if vh::low_bits(g2i, ri) as i64 != e.1 { t.miss(ev_scalar("low_bits", g2, eta, r, 0, json!(vh::low_bits(g2i, ri)))); }
            let u0 = vh::use_hint(g2i, 0, ri); let u1 = vh::use_hint(g2i, 1, ri);
            if u0 as i64 != e.0 { t.miss(ev_scalar("use_hint", g2, eta, r, 0, json!(u0))); }
            if u1 as i64 != uh1.eval(r.rem_euclid(Q)).0 { t.miss(ev_scalar("use_hint", g2, eta, r, 1, json!(u1))); }
            } t.evals.fetch_add(((b - a) * 5) as u64, Ordering::Relaxed); });
        tallies.push(t);

        // MakeHint(z, r) in the shape its caller supplies: z = q - ct0 with |ct0| < q, r in (-q, q)
        let t = Tally::new(&format!("make_hint[g2={}]", g2));
        let mut cts: Vec<i64> = vec![0, 1, -1, g2 - 1, -(g2 - 1), g2, -g2, g2 + 1, Q - 1, -(Q - 1), g2 / 2, 2 * g2, -2 * g2 + 1];
        for _ in 0..(if thorough { 24 } else { 4 }) { cts.push(p.range(-(Q - 1), Q - 1)); }
        let cts_ref = &cts;
        par_range(-(Q - 1), Q, &|a, b| { for r in a..b { for &ct0 in cts_ref.iter() {
            let z = Q - ct0;
            let want = dec.eval(r.rem_euclid(Q)).0 != dec.eval((r + z).rem_euclid(Q)).0;
            let got = vh::make_hint(g2i, z as i32, r as i32);
            if got != want { t.miss(ev_scalar("make_hint", g2, eta, z, r, json!(got as i32))); }
            } } t.evals.fetch_add(((b - a) as u64) * cts_ref.len() as u64, Ordering::Relaxed); });
        tallies.push(t);

        // mod+- on [-2q, 3q) (whole precondition range below, against the contract)
        let t = Tally::new(&format!("center_mod[table g2={}]", g2));
        par_range(-2 * Q, 3 * Q, &|a, b| { for m in a..b {
            let got = vh::center_mod(m as i32) as i64;
            if got != cm.eval(m.rem_euclid(Q)).1 { t.miss(ev_scalar("center_mod", g2, eta, m, 0, json!(got))); } }
            t.evals.fetch_add((b - a) as u64, Ordering::Relaxed); });
        tallies.push(t);

        // CoeffFromThreeBytes on all 2^24 inputs
        let t = Tally::new(&format!("coeff_from_three_bytes[g2={}]", g2));
        par_range(0, 1 << 24, &|a, b| { for v in a..b {
            let got = vh::coeff_from_three_bytes::<false>([(v & 255) as u8, ((v >> 8) & 255) as u8, (v >> 16) as u8]).map(|x| x as i64).unwrap_or(bot);
            if got != c3.eval(v).1 { t.miss(ev_scalar("coeff3", g2, eta, v, 0, json!(got))); } }
            t.evals.fetch_add((b - a) as u64, Ordering::Relaxed); });
        tallies.push(t);

        // CoeffFromHalfByte on all 16 inputs
        let t = Tally::new(&format!("coeff_from_half_byte[eta={}]", eta));
        for b in 0..16i64 {
            let want = match &tv["halfbyte"] { Value::Object(m) => m[&b.to_string()].as_i64().unwrap(), Value::Array(v) => v[b as usize].as_i64().unwrap(), _ => panic!() };
            let got = vh::coeff_from_half_byte::<false>(eta as i32, b as u8).map(|x| x as i64).unwrap_or(bot);
            if got != want { t.miss(ev_scalar("halfbyte", g2, eta, b, 0, json!(got))); }
            out.ev(ev_scalar("halfbyte", g2, eta, b, 0, json!(got)));
            t.evals.fetch_add(1, Ordering::Relaxed);
        }
        tallies.push(t);

        // sample events for TLC: piece boundaries and random points of every function
        let mut xs: Vec<i64> = vec![];
        for tb in [&p2r, &dec, &uh1, &cm] { for pc in tb.pieces.iter().step_by(if tb.pieces.len() > 100 { 97 } else { 7 }) { xs.extend([pc.lo - 1, pc.lo, pc.hi, pc.hi + 1]); } }
        xs.extend([0, 1, Q - 1, Q - g2, Q - g2 - 1, Q - g2 + 1, (Q - 1) / 2, (Q - 1) / 2 + 1, 4096, 4097]);
        for _ in 0..40 { xs.push(p.range(0, Q - 1)); }
        for x in xs.into_iter().filter(|x| *x >= 0 && *x < Q) {
            let xi = x as i32;
            let arr: [i32; 256] = [xi; 256];
            let (r1, r0) = vh::power2round(&arr);
            out.ev(ev_scalar("power2round", g2, eta, x, 0, json!([r1[0], r0[0]])));
            let d = vh::decompose(g2i, xi);
            out.ev(ev_scalar("decompose", g2, eta, x, 0, json!([d.0, d.1])));
            out.ev(ev_scalar("use_hint", g2, eta, x, 1, json!(vh::use_hint(g2i, 1, xi))));
            out.ev(ev_scalar("center_mod", g2, eta, x - Q, 0, json!(vh::center_mod((x - Q) as i32))));
            let z = Q - p.range(-(g2 + 2), g2 + 2);
            out.ev(ev_scalar("make_hint", g2, eta, z, x, json!(vh::make_hint(g2i, z as i32, xi) as i32)));
        }
        for v in [0i64, Q - 1, Q, Q + 1, (1 << 23) - 1, 1 << 23, (1 << 23) + Q - 1, (1 << 23) + Q, (1 << 24) - 1, p.range(0, (1 << 24) - 1)] {
            let got = vh::coeff_from_three_bytes::<false>([(v & 255) as u8, ((v >> 8) & 255) as u8, (v >> 16) as u8]).map(|x| x as i64).unwrap_or(bot);
            out.ev(ev_scalar("coeff3", g2, eta, v, 0, json!(got)));
        }
    }

    // ---------------------------------------------------------------- reductions against their contracts (M4)
    let stride32: i64 = if thorough { 1 } else { 3 };
    let t32 = Tally::new("partial_reduce32+full_reduce32+center_mod[contract, |a| < 2143289344]");
    par_range(-(PRE32 - 1) / stride32, (PRE32 - 1) / stride32 + 1, &|a, b| { for k in a..b {
        let x = k * stride32; let xi = x as i32;
        let pr = vh::partial_reduce32(xi) as i64;
        if (pr - x).rem_euclid(Q) != 0 || pr.abs() >= Q { t32.miss(ev_scalar("partial_reduce32", 0, 0, x, 0, json!(pr))); }
        let fr = vh::full_reduce32(xi) as i64;
        if fr != x.rem_euclid(Q) { t32.miss(ev_scalar("full_reduce32", 0, 0, x, 0, json!(fr))); }
        let c = vh::center_mod(xi) as i64;
        let want = { let t = x.rem_euclid(Q); if t > Q / 2 { t - Q } else { t } };
        if c != want { t32.miss(ev_scalar("center_mod", 0, 0, x, 0, json!(c))); }
        } t32.evals.fetch_add(((b - a) * 3) as u64, Ordering::Relaxed); });
    tallies.push(t32);

    // Montgomery reduction: all 2^32 low words x boundary and sampled high words of the documented range
    let tm = Tally::new("mont_reduce[all 2^32 low words x high words]");
    let (himin, himax) = (-(Q / 2) - 1, Q / 2); // a = hi*2^32 + lo with -2^31 q <= a <= (2^31-1) q
    let mut his: Vec<i64> = vec![himin, himin + 1, -2, -1, 0, 1, 2, himax - 1, himax, 1 << 21, -(1 << 21), 0x155555, -0x2aaaab];
    for _ in 0..(if thorough { 115 } else { 3 }) { his.push(p.range(himin, himax)); }
    let (amin, amax) = (-(1i64 << 31) * Q, ((1i64 << 31) - 1) * Q);
    for &hi in his.iter() {
        let tmr = &tm;
        par_range(0, 1i64 << 32, &|a, b| { let mut n = 0u64; for lo in a..b {
            let v = (hi << 32) + lo;
            if v < amin || v > amax { continue; }
            let r = vh::mont_reduce(v) as i64;
            if r <= -Q || r >= Q || (((r as i128) << 32) - v as i128).rem_euclid(Q as i128) != 0 {
                tmr.miss(json!({"ev": "Mont", "hi": hi, "lh": lo >> 16, "ll": lo & 0xffff, "got": r})); }
            n += 1; } tmr.evals.fetch_add(n, Ordering::Relaxed); });
    }
    tallies.push(tm);
    for _ in 0..60 {
        let hi = his[p.below(his.len() as u64) as usize]; let lo = p.below(1 << 32) as i64; let v = (hi << 32) + lo;
        if v < amin || v > amax { continue; }
        out.ev(json!({"ev": "Mont", "hi": hi, "lh": lo >> 16, "ll": lo & 0xffff, "got": vh::mont_reduce(v)}));
    }
    for v in [amin, amin + 1, -1i64, 0, 1, amax - 1, amax, Q << 31, -(Q << 31) + 1, (1i64 << 32) * 4190208 + 0xffff_ffff] {
        if v < amin || v > amax { continue; }
        let (hi, lo) = (v >> 32, v & 0xffff_ffff);
        out.ev(json!({"ev": "Mont", "hi": hi, "lh": lo >> 16, "ll": lo & 0xffff, "got": vh::mont_reduce(v)}));
    }

    // 64-bit Barrett-style reduction in the only shape its caller supplies: x * 2^32, |x| < 67058539
    let t64 = Tally::new("partial_reduce64[x*2^32, all |x| < 67058539]");
    par_range(-67_058_538, 67_058_539, &|a, b| { for x in a..b {
        let r = vh::partial_reduce64(x << 32) as i64;
        if r.abs() >= 2 * Q || (r as i128 - ((x as i128) << 32)).rem_euclid(Q as i128) != 0 { t64.miss(json!({"ev": "PR64", "x": x, "got": r})); } }
        t64.evals.fetch_add((b - a) as u64, Ordering::Relaxed); });
    tallies.push(t64);
    for x in [-67_058_538i64, -67_058_537, -1, 0, 1, 67_058_537, 67_058_538, Q, -Q, 4_190_208, p.range(-67_058_538, 67_058_538), p.range(-67_058_538, 67_058_538)] {
        out.ev(json!({"ev": "PR64", "x": x, "got": vh::partial_reduce64(x << 32)}));
    }
    for x in [-(PRE32 - 1), -(PRE32 - 2), -Q, -1, 0, 1, Q - 1, Q, Q + 1, (1 << 22), (1 << 22) + 1, -(1 << 22) - 1, PRE32 - 2, PRE32 - 1, p.range(-(PRE32 - 1), PRE32 - 1), p.range(-(PRE32 - 1), PRE32 - 1)] {
        out.ev(ev_scalar("partial_reduce32", 0, 0, x, 0, json!(vh::partial_reduce32(x as i32))));
        out.ev(ev_scalar("full_reduce32", 0, 0, x, 0, json!(vh::full_reduce32(x as i32))));
        out.ev(ev_scalar("center_mod", 0, 0, x, 0, json!(vh::center_mod(x as i32))));
    }

    // every disagreement becomes an event too (TLC confirms it from the definition before it is reported)
    let mut total_bad = 0;
    for t in tallies.iter() {
        let bad = t.bad.lock().unwrap();
        for e in bad.iter() { let mut e = e.clone(); e["disagrees_with_table"] = json!(true); out.ev(e); }
        total_bad += t.nbad.load(Ordering::Relaxed);
        summary.insert(t.name.clone(), json!({"evaluations": t.evals.load(Ordering::Relaxed), "disagreements": t.nbad.load(Ordering::Relaxed), "first": bad.clone()}));
    }
    let n = out.finish();
    std::fs::write(format!("{}/scalar_summary.json", outdir), serde_json::to_string(&Value::Object(summary)).unwrap()).unwrap();
    println!("scalar events={} disagreements={}", n, total_bad);
}
