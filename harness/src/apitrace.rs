// Traces judged by Layer A (spec/API.tla through spec/trace/TraceAPI.tla): one event per public
// call, logged at its return, with opaque identities for messages, contexts, draws, signatures
// and serialisations (the bytes in hex when short, else length + SHAKE256 digest).
use crate::api::*;
use crate::msgfmt::{bit_length, format_msg, msg_of, prehash, shake256};
use crate::for_set;
use crate::util::*;
#[cfg(feature = "hooks")]
use fips204::verif_hooks as vh;
use serde_json::{json, Value};
use std::collections::HashMap;

pub fn ident(b: &[u8]) -> String {
    if b.len() <= 40 { format!("x{}", hexs(b)) } else { format!("n{}:{}", b.len(), hexs(&shake256(&[b], 16))) }
}

/// identity of the formatted message M' (hook-free arithmetic of msgfmt.rs; TraceF's Format events tie that to the
/// specification's FormatMsg); contexts over the limit have no M'
pub fn mp_ident(mode: &str, ctx: &[u8], m: &[u8]) -> String {
    if ctx.len() > 255 { "none".to_string() } else { ident(&format_msg(mode, ctx, m)) }
}

pub struct World<'a, S: MlDsa> {
    next: i64,
    pub pks: HashMap<i64, S::Pk>,
    pub sks: HashMap<i64, S::Sk>,
    pub out: &'a mut Out,
}

fn fault_name(f: &Fault) -> &'static str { match f { Fault::None => "none", Fault::ErrBefore => "err_before", Fault::ErrAfter(_) => "err_after" } }

impl<'a, S: MlDsa> World<'a, S> {
    pub fn new(out: &'a mut Out) -> Self { World { next: 1, pks: HashMap::new(), sks: HashMap::new(), out } }
    fn fresh(&mut self) -> i64 { self.next += 1; self.next - 1 }
    fn emit(&mut self, mut e: Value, panic: Option<(String, String)>) {
        if let Some((loc, msg)) = panic { e["panic"] = json!(format!("{}: {}", loc, msg)); }
        self.out.ev(e);
    }

    pub fn keygen_seed(&mut self, xi: &[u8; 32]) -> (i64, i64) {
        let (hp, hs) = (self.fresh(), self.fresh());
        let r = guarded(|| S::keygen_seed(xi));
        let e = json!({"ev": "KeyGenSeed", "set": S::SET, "seed": ident(xi), "pk": hp, "sk": hs});
        match r {
            Ok((pk, sk)) => { self.pks.insert(hp, pk); self.sks.insert(hs, sk); self.emit(e, None); }
            Err(p) => self.emit(e, Some(p)),
        }
        (hp, hs)
    }
    pub fn keygen_rng(&mut self, draw: &[u8; 32], fault: Fault) -> Option<(i64, i64)> {
        let (hp, hs) = (self.fresh(), self.fresh());
        let mut rng = ScriptRng::faulty(draw, fault.clone(), 0);
        let r = guarded(|| S::keygen_rng(&mut rng));
        let mut e = json!({"ev": "KeyGenRng", "set": S::SET, "draw": ident(draw), "fault": fault_name(&fault), "pk": hp, "sk": hs, "rnglog": rng.log_json()});
        match r {
            Ok(Ok((pk, sk))) => { self.pks.insert(hp, pk); self.sks.insert(hs, sk); e["ok"] = json!(true); self.emit(e, None); Some((hp, hs)) }
            Ok(Err(_)) => { e["ok"] = json!(false); self.emit(e, None); None }
            Err(p) => { self.emit(e, Some(p)); None }
        }
    }
    pub fn sign(&mut self, hs: i64, m: &[u8], ctx: &[u8], mode: &str, draw: &[u8; 32], fault: Fault) -> Option<Vec<u8>> {
        let mut rng = ScriptRng::faulty(draw, fault.clone(), 0);
        let sk = self.sks.get(&hs).expect("sk handle").clone();
        let r = guarded(|| S::sign(&sk, &mut rng, m, ctx, mode));
        let mut e = json!({"ev": "Sign", "sk": hs, "msg": ident(m), "ctx": ident(ctx), "ctxlen": ctx.len(), "mode": mode, "mp": mp_ident(mode, ctx, m), "draw": ident(draw),
                           "fault": fault_name(&fault), "rnglog": rng.log_json(), "sig": "none"});
        match r {
            Ok(Ok(sig)) => { e["ok"] = json!(true); e["sig"] = json!(ident(&sig)); self.emit(e, None); Some(sig) }
            Ok(Err(_)) => { e["ok"] = json!(false); self.emit(e, None); None }
            Err(p) => { self.emit(e, Some(p)); None }
        }
    }
    pub fn verify(&mut self, hp: i64, m: &[u8], ctx: &[u8], mode: &str, sig: &[u8]) -> Option<bool> {
        let pk = self.pks.get(&hp).expect("pk handle").clone();
        let r = guarded(|| S::verify(&pk, m, sig, ctx, mode));
        let mut e = json!({"ev": "Verify", "pk": hp, "msg": ident(m), "ctx": ident(ctx), "ctxlen": ctx.len(), "mode": mode, "mp": mp_ident(mode, ctx, m), "sig": ident(sig)});
        match r { Ok(b) => { e["res"] = json!(b); self.emit(e, None); Some(b) } Err(p) => { self.emit(e, Some(p)); None } }
    }
    /// Algorithm 7 through the internal interface (M' and rnd given)
    pub fn sign_internal(&mut self, hs: i64, mp: &[u8], draw: &[u8; 32]) -> Option<Vec<u8>> {
        let sk = self.sks.get(&hs).expect("sk handle").clone();
        let r = guarded(|| S::internal_sign(&sk, mp, *draw));
        let mut e = json!({"ev": "SignInternal", "sk": hs, "mp": ident(mp), "draw": ident(draw), "sig": "none"});
        match r { Ok(sig) => { e["sig"] = json!(ident(&sig)); self.emit(e, None); Some(sig) } Err(p) => { self.emit(e, Some(p)); None } }
    }
    /// the constant-time test entry point: `data` = 64 bytes the RNG hands out, fault at request `at`
    pub fn dudect(&mut self, data: &[u8], fault: Fault, at: usize) -> Option<bool> {
        let mut rng = ScriptRng::faulty(data, fault.clone(), at);
        let r = guarded(|| S::dudect(&mut rng, b"ct").is_ok());
        let mut e = json!({"ev": "Dudect", "fault": fault_name(&fault), "at": at, "rnglog": rng.log_json()});
        match r { Ok(ok) => { e["ok"] = json!(ok); self.emit(e, None); Some(ok) } Err(p) => { self.emit(e, Some(p)); None } }
    }
    /// Algorithm 8 through the internal interface
    pub fn verify_internal(&mut self, hp: i64, mp: &[u8], sig: &[u8]) -> Option<bool> {
        let pk = self.pks.get(&hp).expect("pk handle").clone();
        let r = guarded(|| S::internal_verify(&pk, mp, sig));
        let mut e = json!({"ev": "VerifyInternal", "pk": hp, "mp": ident(mp), "sig": ident(sig)});
        match r { Ok(b) => { e["res"] = json!(b); self.emit(e, None); Some(b) } Err(p) => { self.emit(e, Some(p)); None } }
    }
    pub fn ser(&mut self, h: i64) -> Vec<u8> {
        let r = if let Some(pk) = self.pks.get(&h) { let pk = pk.clone(); guarded(|| S::pk_bytes(&pk)) }
                else { let sk = self.sks.get(&h).expect("handle").clone(); guarded(|| S::sk_bytes(&sk)) };
        match r {
            Ok(b) => { self.emit(json!({"ev": "Ser", "h": h, "bytes": ident(&b), "len": b.len()}), None); b }
            Err(p) => { self.emit(json!({"ev": "Ser", "h": h, "bytes": "none", "len": 0}), Some(p)); vec![] }
        }
    }
    pub fn deser(&mut self, kind: &str, b: &[u8]) -> Option<i64> {
        let h = self.fresh();
        let e = json!({"ev": "Deser", "kind": kind, "set": S::SET, "bytes": ident(b), "h": h});
        if kind == "pk" {
            match guarded(|| S::pk_from(b)) {
                Ok(Ok(k)) => { self.pks.insert(h, k); let mut e = e; e["ok"] = json!(true); self.emit(e, None); Some(h) }
                Ok(Err(_)) => { let mut e = e; e["ok"] = json!(false); self.emit(e, None); None }
                Err(p) => { self.emit(e, Some(p)); None }
            }
        } else {
            match guarded(|| S::sk_from(b)) {
                Ok(Ok(k)) => { self.sks.insert(h, k); let mut e = e; e["ok"] = json!(true); self.emit(e, None); Some(h) }
                Ok(Err(_)) => { let mut e = e; e["ok"] = json!(false); self.emit(e, None); None }
                Err(p) => { self.emit(e, Some(p)); None }
            }
        }
    }
    pub fn derive(&mut self, hs: i64) -> i64 {
        let h = self.fresh();
        let sk = self.sks.get(&hs).expect("sk").clone();
        match guarded(|| S::derive(&sk)) {
            Ok(pk) => { self.pks.insert(h, pk); self.emit(json!({"ev": "Derive", "sk": hs, "pk": h}), None); }
            Err(p) => self.emit(json!({"ev": "Derive", "sk": hs, "pk": h}), Some(p)),
        }
        h
    }
    pub fn clone_key(&mut self, h: i64) -> i64 {
        let h2 = self.fresh();
        if let Some(k) = self.pks.get(&h) { let k = k.clone(); self.pks.insert(h2, k); } else { let k = self.sks.get(&h).expect("handle").clone(); self.sks.insert(h2, k); }
        self.emit(json!({"ev": "Clone", "h": h, "h2": h2}), None);
        h2
    }
    /// Move the key into a caller-owned buffer, drop it in place, read the buffer back.
    pub fn drop_key(&mut self, h: i64) {
        fn observe<T>(k: T) -> (usize, usize, usize) {
            let mut slot: Box<std::mem::MaybeUninit<T>> = Box::new(std::mem::MaybeUninit::uninit());
            slot.write(k);
            let size = std::mem::size_of::<T>();
            let p = slot.as_ptr() as *const u8;
            let count = |p: *const u8| (0..size).filter(|&i| unsafe { std::ptr::read_volatile(p.add(i)) } != 0).count();
            let before = count(p);
            unsafe { std::ptr::drop_in_place(slot.as_mut_ptr()); }
            let after = count(p);
            (size, before, after)
        }
        /// A second copy of the key lives in an ordinary Box and is dropped the ordinary way (destructor, then free); its
        /// storage is read back AFTER the free.  A wipe made of plain stores is a dead store to the optimiser once the free
        /// is in sight and is removed; the volatile wipe of `zeroize` is not.  (The allocator may write a few list
        /// pointers into the freed block: the judge allows 64 non-zero bytes.)
        fn observe_freed<T>(k: T) -> usize {
            let size = std::mem::size_of::<T>();
            let b = Box::new(k);
            let p = std::hint::black_box(&*b as *const T as *const u8);
            drop(b);
            (0..size).filter(|&i| unsafe { std::ptr::read_volatile(p.add(i)) } != 0).count()
        }
        let (kind, (size, before, after), freed) = if let Some(k) = self.pks.remove(&h) { let f = observe_freed(k.clone()); ("pk", observe(k), f) }
            else { let k = self.sks.remove(&h).expect("handle"); let f = observe_freed(k.clone()); ("sk", observe(k), f) };
        self.emit(json!({"ev": "Drop", "h": h, "kind": kind, "set": S::SET, "size": size, "nonzero_before": before, "nonzero_after": after, "nonzero_after_free": freed}), None);
    }
    /// every single-bit flip of one component of a verifying tuple
    pub fn flip_sweep(&mut self, hp: i64, m: &[u8], ctx: &[u8], mode: &str, sig: &[u8], field: &str) {
        let pk = self.pks.get(&hp).expect("pk").clone();
        let pkb = S::pk_bytes(&pk);
        let target: Vec<u8> = match field { "sig" => sig.to_vec(), "pk" => pkb.clone(), "msg" => m.to_vec(), _ => ctx.to_vec() };
        let r = guarded(|| {
            let base = S::verify(&pk, m, sig, ctx, mode);
            let mut accepted: Vec<usize> = vec![];
            let mut t = target.clone();
            for bit in 0..t.len() * 8 {
                t[bit / 8] ^= 1 << (bit % 8);
                let ok = match field {
                    "sig" => S::verify(&pk, m, &t, ctx, mode),
                    "pk" => { let k = S::pk_from(&t).expect("pk bytes always deserialise"); S::verify(&k, m, sig, ctx, mode) }
                    "msg" => S::verify(&pk, &t, sig, ctx, mode),
                    _ => S::verify(&pk, m, sig, &t, mode),
                };
                if ok { accepted.push(bit); }
                t[bit / 8] ^= 1 << (bit % 8);
            }
            (base, accepted)
        });
        let mut e = json!({"ev": "FlipSweep", "field": field, "pk": hp, "msg": ident(m), "msglen": m.len(), "ctx": ident(ctx), "ctxlen": ctx.len(),
                           "mode": mode, "mp": mp_ident(mode, ctx, m), "sig": ident(sig), "nbits": target.len() * 8});
        match r { Ok((base, acc)) => { e["base_res"] = json!(base); e["accepted"] = json!(acc); self.emit(e, None); } Err(p) => self.emit(e, Some(p)) }
    }
}

// ------------------------------------------------------------------------------- scenarios
/// C01 / C09 / C11: honest flows over key provenances, modes, message and context classes
pub fn honest<S: MlDsa>(seed: u64, nseeds: usize, nmsgs: usize, out: &mut Out) {
    let mut p = Prng::new(seed, 0x0100 + S::SET as u64);
    let mut w = World::<S>::new(out);
    for si in 0..nseeds {
        let xi = p.arr32();
        let (hp, hs) = if si % 2 == 0 { w.keygen_seed(&xi) } else { w.keygen_rng(&xi, Fault::None).unwrap() };
        // key provenances
        let skb = w.ser(hs);
        let pkb = w.ser(hp);
        let hs_rt = w.deser("sk", &skb).unwrap();
        let hp_rt = w.deser("pk", &pkb).unwrap();
        let hp_der = w.derive(hs);
        let hp_der_rt = w.derive(hs_rt);
        let hs_cl = w.clone_key(hs_rt);
        // serialisations of every provenance must coincide (C09, C11)
        for h in [hs_rt, hp_rt, hp_der, hp_der_rt, hs_cl] { let _ = w.ser(h); }
        let sks = [hs, hs_rt, hs_cl];
        let pks = [hp, hp_rt, hp_der, hp_der_rt];
        for mi in 0..nmsgs {
            let m = msg_of(&mut p, (mi + si) as u64);
            let ctx = p.bytes([0usize, 1, 255, 32][(mi + si) % 4]);
            for (k, mode) in MODES.iter().enumerate() {
                let draw = p.arr32();
                let hsk = sks[(mi + k) % 3];
                let sig = w.sign(hsk, &m, &ctx, mode, &draw, Fault::None).unwrap_or_default();
                // the same draw on a key of another provenance gives the same signature (C09)
                if mi == 0 { let _ = w.sign(sks[(mi + k + 1) % 3], &m, &ctx, mode, &draw, Fault::None); }
                for hpk in pks { let _ = w.verify(hpk, &m, &ctx, mode, &sig); }
                // the two interfaces are one function of (key, M', rnd): Sign_internal on FormatMsg(..) with the same rnd gives
                // the same string, and each interface accepts what the other issued
                if (mi + k + si) % 3 == 0 {
                    let mp = format_msg(mode, &ctx, &m);
                    let _ = w.sign_internal(sks[(mi + k + 2) % 3], &mp, &draw);
                    let _ = w.verify_internal(pks[(mi + k) % 4], &mp, &sig);
                    let d2 = p.arr32();
                    if let Some(s_int) = w.sign_internal(hsk, &mp, &d2) { let _ = w.verify(pks[(mi + k + 1) % 4], &m, &ctx, mode, &s_int); }
                    // a raw M' that is no external format (first byte 2): issued and accepted through the internal interface only
                    if mi == 0 { let raw = [&[2u8][..], &m[..m.len().min(64)]].concat(); if let Some(s_raw) = w.sign_internal(hsk, &raw, &d2) { let _ = w.verify_internal(pks[k % 4], &raw, &s_raw); let _ = w.verify(pks[k % 4], &raw, b"", "pure", &s_raw); } }
                }
                // the SAME buffer with other contents (a caller re-using its message buffer): results are functions of the bytes,
                // not of where they live - flipped in place it must not verify, restored it must, and signing it gives another string
                if m.len() >= 1024 {
                    let mut buf = m.clone();
                    let _ = w.verify(pks[k % 4], &buf, &ctx, mode, &sig);
                    let pos = p.below(buf.len() as u64) as usize;
                    buf[pos] ^= 0x10;
                    let _ = w.verify(pks[k % 4], &buf, &ctx, mode, &sig);
                    let _ = w.sign(hsk, &buf, &ctx, mode, &draw, Fault::None);
                    buf[pos] ^= 0x10;
                    let _ = w.verify(pks[k % 4], &buf, &ctx, mode, &sig);
                    let _ = w.sign(hsk, &buf, &ctx, mode, &draw, Fault::None);
                }
                // and a few things that must not verify
                if k == mi % 4 {
                    let mut s2 = sig.clone(); let pos = p.below(s2.len().max(1) as u64) as usize; if !s2.is_empty() { s2[pos] ^= 1 << p.below(8); }
                    let _ = w.verify(pks[mi % 4], &m, &ctx, mode, &s2);
                    let _ = w.verify(pks[(mi + 1) % 4], &m, &ctx, MODES[(k + 1) % 4], &sig);
                    let mut m2 = m.clone(); m2.push(0);
                    let _ = w.verify(pks[(mi + 2) % 4], &m2, &ctx, mode, &sig);
                }
            }
        }
    }
    // signatures of one lineage never verify under another (same set)
    let (hp_a, hs_a) = w.keygen_seed(&p.arr32());
    let (hp_b, _hs_b) = w.keygen_seed(&p.arr32());
    let sig = w.sign(hs_a, b"cross", b"", "pure", &p.arr32(), Fault::None).unwrap_or_default();
    let _ = w.verify(hp_a, b"cross", b"", "pure", &sig);
    let _ = w.verify(hp_b, b"cross", b"", "pure", &sig);
}

#[cfg(feature = "hooks")]
/// C01 rare-event hunt: sign many messages natively with the attempt hook, classify each signature (many attempts,
/// hint weight 0 / omega, first or some hint polynomial empty, response norm one below the bound) and put a few of
/// every class through the recorded API (sign again with the same draw, verify under every key provenance).
pub fn honest_hunt<S: MlDsa>(seed: u64, n: usize, out: &mut Out) {
    let mut p = Prng::new(seed, 0x0180 + S::SET as u64);
    let mut w = World::<S>::new(out);
    let xi = p.arr32();
    let (hp, hs) = w.keygen_seed(&xi);
    let sk = w.sks.get(&hs).unwrap().clone();
    let pkb = w.ser(hp);
    let hp_rt = w.deser("pk", &pkb).unwrap();
    let hp_der = w.derive(hs);
    let edge = (S::GAMMA1 - S::beta() - 1) as i64;
    let mut kept: HashMap<u32, Vec<(Vec<u8>, [u8; 32], &'static str)>> = HashMap::new();
    for i in 0..n {
        let m = (i as u32).to_le_bytes().to_vec();
        let draw = p.arr32();
        let mode = MODES[i % 4];
        vh::trace_start();
        let r = guarded(|| S::sign(&sk, &mut ScriptRng::new(&draw), &m, b"", mode));
        let evs: Vec<[i64; 8]> = vh::trace_take().iter().filter(|e| e.0 == "sign_attempt").map(|e| e.1).collect();
        let Ok(Ok(sig)) = r else { let _ = w.sign(hs, &m, b"", mode, &draw, Fault::None); continue };
        let mut classes: Vec<u32> = vec![];
        if evs.len() >= 24 { classes.push(0); }
        if evs.len() > 32 { classes.push(1); }
        if let Some(last) = evs.last() { if last[1] == edge { classes.push(2); } if last[4] == S::OMEGA as i64 { classes.push(3); } if last[4] == 0 { classes.push(4); } }
        if let Some((_, _, h)) = S::sig_decode(&sig) {
            let wts: Vec<i32> = h.iter().map(|q| q.iter().sum()).collect();
            if wts[0] == 0 && wts.iter().any(|x| *x > 0) { classes.push(5); }
            if wts[S::K - 1] == 0 && wts.iter().any(|x| *x > 0) { classes.push(6); }
            if wts.iter().filter(|x| **x == 0).count() >= 2 { classes.push(7); }
        } else { classes.push(8); }                       // the library's own decoder refuses an honest signature
        // an honest signature that does not verify natively is kept whatever its class
        let okv = guarded(|| S::verify(w.pks.get(&hp).unwrap(), &m, &sig, b"", mode)).unwrap_or(false);
        if !okv { classes.push(9); }
        for c in classes { let e = kept.entry(c).or_default(); if e.len() < 2 { e.push((m.clone(), draw, mode)); } }
    }
    let mut done: Vec<(Vec<u8>, [u8; 32])> = vec![];
    let mut cls: Vec<u32> = kept.keys().cloned().collect();
    cls.sort();
    for c in cls {
        for (m, draw, mode) in kept[&c].clone() {
            if done.iter().any(|d| d.0 == m && d.1 == draw) { continue; }
            done.push((m.clone(), draw));
            let sig = w.sign(hs, &m, b"", mode, &draw, Fault::None).unwrap_or_default();
            for h in [hp, hp_rt, hp_der] { let _ = w.verify(h, &m, b"", mode, &sig); }
        }
    }
    w.out.ev(json!({"ev": "Note", "what": format!("honest hunt: {} signatures classified, {} replayed through the recorded API", n, done.len())}));
}

/// hint-section malformations of Algorithm 21 applied to the last omega+k bytes of a signature (byte surgery only)
pub fn hint_mutants_api<S: MlDsa>(sig: &[u8], p: &mut Prng) -> Vec<(String, Vec<u8>)> {
    let om = S::OMEGA as usize;
    let hs = S::SIG_LEN - om - S::K;
    let y = &sig[hs..];
    let cnt = |i: usize| y[om + i] as usize;
    let total = cnt(S::K - 1);
    let mut v: Vec<(String, Vec<u8>)> = vec![];
    let mut mk = |name: &str, f: &dyn Fn(&mut [u8])| { let mut s = sig.to_vec(); f(&mut s[hs..]); if s != sig { v.push((name.to_string(), s)); } };
    for i in [0, S::K / 2, S::K - 1] {
        mk(&format!("count[{}] = omega+1", i), &|y| y[om + i] = om as u8 + 1);
        mk(&format!("count[{}] = 255", i), &|y| y[om + i] = 255);
        if i > 0 && cnt(i - 1) > 0 { mk(&format!("count[{}] below previous", i), &|y| y[om + i] = y[om + i - 1] - 1); }
    }
    for i in 0..S::K {
        let lo = if i == 0 { 0 } else { cnt(i - 1) };
        if cnt(i) >= lo + 2 {
            mk(&format!("equal adjacent indices in poly {}", i), &|y| y[lo + 1] = y[lo]);
            mk(&format!("descending indices in poly {}", i), &|y| y.swap(lo, lo + 1));
        }
        if i > 0 && cnt(i) == cnt(i - 1) && cnt(i) > 0 { mk(&format!("count of empty poly {} lowered", i), &|y| y[om + i] -= 1); }
    }
    if total < om {
        for k in total..om { mk(&format!("non-zero unused slot {}", k), &|y| y[k] = 1 + (k as u8 % 200)); }
        let r = total + p.below((om - total) as u64) as usize;
        mk("non-zero random unused slot", &|y| y[r] = 0x80);
        if total > 0 { mk("last count raised over padding", &|y| y[om + S::K - 1] += 1); }
    }
    mk("strictly increasing run through positions and counts", &|y| { for i in 0..om { y[i] = i as u8; } for i in 0..S::K { y[om + i] = (200 + i) as u8; } });
    v
}

/// C02 / C08 through the public API only (works without the hooks feature): every malformed, truncated-looking or
/// random signature must be rejected (the ideal functionality accepts issued strings only), the honest ones accepted
pub fn malformed<S: MlDsa>(seed: u64, nbase: usize, out: &mut Out) {
    let mut p = Prng::new(seed, 0x0280 + S::SET as u64);
    let mut w = World::<S>::new(out);
    let (hp, hs) = w.keygen_seed(&p.arr32());
    for b in 0..nbase {
        let mode = MODES[b % 4];
        let m = msg_of(&mut p, b as u64);
        let ctx = p.bytes([0usize, 9, 255][b % 3]);
        let sig = w.sign(hs, &m, &ctx, mode, &p.arr32(), Fault::None).unwrap_or_default();
        let _ = w.verify(hp, &m, &ctx, mode, &sig);
        for (_name, s2) in hint_mutants_api::<S>(&sig, &mut p) { let _ = w.verify(hp, &m, &ctx, mode, &s2); }
        // every byte of the commitment hash, a sample of the response section, all-00 / all-FF / random strings
        for pos in 0..S::LAMBDA / 4 { let mut s2 = sig.clone(); s2[pos] ^= 1 << (pos % 8); let _ = w.verify(hp, &m, &ctx, mode, &s2); }
        for _ in 0..16 { let mut s2 = sig.clone(); let k = S::LAMBDA / 4 + p.below((S::SIG_LEN - S::LAMBDA / 4) as u64) as usize; s2[k] ^= 1 << p.below(8); let _ = w.verify(hp, &m, &ctx, mode, &s2); }
        for s2 in [vec![0u8; S::SIG_LEN], vec![0xffu8; S::SIG_LEN], p.bytes(S::SIG_LEN)] { let _ = w.verify(hp, &m, &ctx, mode, &s2); }
    }
}

/// C05: every single-bit flip of sig, pk, message and context
pub fn flips<S: MlDsa>(seed: u64, ntuples: usize, only: &str, out: &mut Out) {
    let mut p = Prng::new(seed, 0x0500 + S::SET as u64);
    let mut w = World::<S>::new(out);
    for t in 0..ntuples {
        let (hp0, hs0) = w.keygen_seed(&p.arr32());
        // rotate key provenance
        let (hp, hs) = match t % 3 {
            0 => (hp0, hs0),
            1 => { let b = w.ser(hp0); let sb = w.ser(hs0); (w.deser("pk", &b).unwrap(), w.deser("sk", &sb).unwrap()) }
            _ => (w.derive(hs0), hs0),
        };
        let mode = MODES[(t + seed as usize) % 4];
        let m = p.bytes([137usize, 8, 1, 200][t % 4]);
        let ctx = p.bytes([255usize, 3, 0, 16][t % 4]);
        let sig = w.sign(hs, &m, &ctx, mode, &p.arr32(), Fault::None).unwrap_or_default();
        for field in ["sig", "pk", "msg", "ctx"] { if only.is_empty() || only == field { w.flip_sweep(hp, &m, &ctx, mode, &sig, field); } }
        if !only.is_empty() { continue; }
        // message and context flips are cheap: do them in every other mode as well (each pre-hash function binds the whole message)
        let other_kind = if mode == "pure" { MODES[1 + t % 3] } else { "pure" };
        for m2 in MODES {
            if m2 == mode { continue; }
            let s2 = w.sign(hs, &m, &ctx, m2, &p.arr32(), Fault::None).unwrap_or_default();
            for field in ["msg", "ctx"] { w.flip_sweep(hp, &m, &ctx, m2, &s2, field); }
            // the public key is bound through tr = H(pk) in BOTH kinds of mode: flip every pk bit in one mode of the other kind too
            if m2 == other_kind { w.flip_sweep(hp, &m, &ctx, m2, &s2, "pk"); }
        }
    }
}

/// C06: alternative interpretations of the same bytes
pub fn binding<S: MlDsa>(seed: u64, nbase: usize, out: &mut Out) {
    let mut p = Prng::new(seed, 0x0600 + S::SET as u64);
    let mut w = World::<S>::new(out);
    let (hp, hs) = w.keygen_seed(&p.arr32());
    for b in 0..nbase + 2 {
        // the first two bases are pure-mode signatures with an EMPTY context over a long message: the only shape whose
        // formatted input coincides with that of a 256-byte (resp. 512-byte) context if the length byte were allowed to wrap
        let special = b < 2;
        let mode = if special { "pure" } else { MODES[b % 4] };
        let ctx = if special { vec![] } else { p.bytes([5usize, 0, 31, 254, 255, 1][b % 6]) };
        // pure-mode bases carry long messages so that splits needing a 256+ byte context (wrapped length byte) exist
        let m = p.bytes(if special { [300usize, 600][b] } else if mode == "pure" { [300usize, 600, 777][(b / 4) % 3] } else { [7usize, 600, 0, 3, 200, 300][b % 6] });
        let sig = w.sign(hs, &m, &ctx, mode, &p.arr32(), Fault::None).unwrap_or_default();
        let _ = w.verify(hp, &m, &ctx, mode, &sig);
        // every re-split of ctx || M (context at most 255 bytes), and splits that would need an over-long
        // context whose length byte wraps (256, 257, 512 bytes)
        let cat: Vec<u8> = [ctx.clone(), m.clone()].concat();
        let wrapped = [256usize, 257, 300, 512, ctx.len() + 256, ctx.len() + 512];
        for cut in (0..=cat.len().min(255)).chain(wrapped.into_iter().filter(|c| *c <= cat.len())) {
            if cut == ctx.len() { continue; }
            let _ = w.verify(hp, &cat[cut..], &cat[..cut], mode, &sig);
        }
        // contexts of the SAME length with different content (one byte changed; all bytes changed)
        if !ctx.is_empty() {
            let mut c2 = ctx.clone(); let k = p.below(c2.len() as u64) as usize; c2[k] ^= 0x40; let _ = w.verify(hp, &m, &c2, mode, &sig);
            let c3: Vec<u8> = ctx.iter().map(|b| b ^ 0xff).collect(); let _ = w.verify(hp, &m, &c3, mode, &sig);
            let mut c4 = ctx.clone(); let last = c4.len() - 1; c4[last] = c4[last].wrapping_add(1); let _ = w.verify(hp, &m, &c4, mode, &sig);
        }
        // every other mode / pre-hash function on the same (M, ctx)
        for m2 in MODES { if m2 != mode { let _ = w.verify(hp, &m, &ctx, m2, &sig); } }
        // confusion between the two interfaces: the FORMATTED message M' of this tuple offered as a plain message (empty and
        // original context, every mode) - a verifier with a fallback to the bare internal format accepts exactly this - and
        // the plain message offered to the internal interface as if it were M'
        {
            let mp = format_msg(mode, &ctx, &m);
            for m2 in MODES { let _ = w.verify(hp, &mp, b"", m2, &sig); }
            let _ = w.verify(hp, &mp, &ctx, mode, &sig);
            let _ = w.verify_internal(hp, &m, &sig);
            let _ = w.verify_internal(hp, &mp, &sig);          // and the right use of the internal interface accepts
            if mp.len() > 2 { let _ = w.verify_internal(hp, &mp[2..], &sig); }
        }
        // crafted messages that mimic the other mode's formatted input
        for ph in ["SHA256", "SHA512", "SHAKE128"] {
            let mimic: Vec<u8> = prehash(ph, &m);
            if mode == "pure" {
                // signed pure on M; also sign pure on OID||PH(M) and try it as a pre-hash signature of M
                let s2 = w.sign(hs, &mimic, &ctx, "pure", &p.arr32(), Fault::None).unwrap_or_default();
                let _ = w.verify(hp, &m, &ctx, ph, &s2);
            } else if mode == ph {
                // signed pre-hash on M; try it as a pure signature of OID||PH(M)
                let _ = w.verify(hp, &mimic, &ctx, "pure", &sig);
            }
        }
        // context moved into the message with its length byte, and the formatted message itself as message
        let mp = format_msg(mode, &ctx, &m);
        let _ = w.verify(hp, &mp, &[], mode, &sig);
        let _ = w.verify(hp, &mp[2..], &[], mode, &sig);
        let _ = w.verify(hp, &mp[1..], &[], "pure", &sig);
    }
}

/// C07: every context length 0..=maxlen, both kinds of mode; forged signatures over the wrapped length byte
pub fn ctxlimit<S: MlDsa>(seed: u64, maxlen: usize, extra: &[usize], out: &mut Out) {
    let mut p = Prng::new(seed, 0x0700 + S::SET as u64);
    let mut w = World::<S>::new(out);
    let (hp, hs) = w.keygen_seed(&p.arr32());
    let _sk = w.sks.get(&hs).unwrap().clone();
    let m = b"context limit".to_vec();
    let lens: Vec<usize> = (0..=maxlen).chain(extra.iter().cloned()).collect();
    for (i, n) in lens.iter().enumerate() {
        let ctx = p.bytes(*n);
        let mode = if i % 2 == 0 { "pure" } else { MODES[1 + (i / 2) % 3] };
        let draw = p.arr32();
        let sig = w.sign(hs, &m, &ctx, mode, &draw, Fault::None);
        match sig {
            Some(s) => { let _ = w.verify(hp, &m, &ctx, mode, &s); }
            None if *n <= 255 => {}      // signing refused a legal context: the recorded Sign line is what the judge rejects
            None => {
                // what a truncating verifier would reconstruct: M' with the length byte wrapped modulo 256
                let mut mp = format_msg(mode, &ctx, &m);
                mp[1] = (*n % 256) as u8;
                let forged = w.sign_internal(hs, &mp, &draw).unwrap_or_default();
                let _ = w.verify(hp, &m, &ctx, mode, &forged);
                let _ = w.verify_internal(hp, &mp, &forged);          // the internal interface has no context rule: accepted there
                // ... and one signed for the truncated context
                let short = &ctx[..*n % 256];
                if let Some(s2) = w.sign(hs, &m, short, mode, &draw, Fault::None) { let _ = w.verify(hp, &m, &ctx, mode, &s2); }
                // ... and one signed for the first 255 bytes (a verifier that clamps instead of rejecting)
                if i % 4 < 2 || *n < 300 { if let Some(s3) = w.sign(hs, &m, &ctx[..255], mode, &draw, Fault::None) { let _ = w.verify(hp, &m, &ctx, mode, &s3); } }
            }
        }
    }
}

/// C12: RNG faults on every entry point, draw-bit sensitivity, OS-RNG freshness
pub fn rngfaults<S: MlDsa>(seed: u64, nsweeps: usize, out: &mut Out) {
    let mut p = Prng::new(seed, 0x1200 + S::SET as u64);
    let mut w = World::<S>::new(out);
    let faults = [Fault::ErrBefore, Fault::ErrAfter(0), Fault::ErrAfter(1), Fault::ErrAfter(16), Fault::ErrAfter(31), Fault::ErrAfter(32), Fault::None];
    let (hp, hs) = w.keygen_seed(&p.arr32());
    for f in faults.iter() {
        let d = p.arr32();
        let _ = w.keygen_rng(&d, f.clone());
        for mode in MODES {
            let d = p.arr32();
            if let Some(sig) = w.sign(hs, b"rng", b"c", mode, &d, f.clone()) { let _ = w.verify(hp, b"rng", b"c", mode, &sig); }
        }
    }
    // the constant-time test entry point draws twice (seed, rnd): a fault at either request is an error.  The fault-free call
    // is recorded in builds without debug assertions only (with them the entry point can trip its encoders' self-checks:
    // recorded finding of C13)
    for at in [0usize, 1] {
        for f in faults.iter() {
            if matches!(f, Fault::None) && (at == 1 || cfg!(debug_assertions)) { continue; }
            let _ = w.dudect(&p.bytes(64), f.clone(), at);
        }
    }
    // the identity of the reported error is the caller's business: OS-style codes (EPERM, EINTR, EIO, EAGAIN, the largest), the
    // generator-internal and custom ranges, each as a single failing request and as a generator that keeps failing
    {
        use std::sync::atomic::Ordering::Relaxed;
        let codes = [1u32, 4, 5, 11, 35, i32::MAX as u32, (1u32 << 31) + 1, (1u32 << 31) + (1 << 30), u32::MAX];
        for (ci, &code) in codes.iter().enumerate() {
            for persists in [false, true] {
                crate::util::ERR_CODE.store(code, Relaxed);
                crate::util::ERR_PERSISTS.store(persists, Relaxed);
                for f in [Fault::ErrBefore, Fault::ErrAfter(16)] {
                    let d = p.arr32();
                    let _ = w.keygen_rng(&d, f.clone());
                    let mode = MODES[(ci + persists as usize) % MODES.len()];
                    let d = p.arr32();
                    if let Some(sig) = w.sign(hs, b"rng-code", b"c", "pure", &d, f.clone()) { let _ = w.verify(hp, b"rng-code", b"c", "pure", &sig); }
                    if mode != "pure" { let d = p.arr32(); if let Some(sig) = w.sign(hs, b"rng-code", b"c", mode, &d, f.clone()) { let _ = w.verify(hp, b"rng-code", b"c", mode, &sig); } }
                    for at in [0usize, 1] { let _ = w.dudect(&p.bytes(64), f.clone(), at); }
                }
            }
        }
        crate::util::ERR_CODE.store(0, Relaxed);
        crate::util::ERR_PERSISTS.store(false, Relaxed);
    }
    // an error must not leave a usable partial result: after a failed keygen/sign the next healthy call works
    let d = p.arr32();
    let _ = w.keygen_rng(&d, Fault::None);
    // bit sensitivity of the draw
    for s in 0..nsweeps {
        let base = p.arr32();
        for entry in ["keygen", "sign", "hash_sign"] {
            let sk = w.sks.get(&hs).unwrap().clone();
            let r = guarded(|| {
                let run = |d: &[u8; 32]| -> Vec<u8> {
                    match entry {
                        "keygen" => { let (pk, sk) = S::keygen_rng(&mut ScriptRng::new(d)).unwrap(); [S::pk_bytes(&pk), S::sk_bytes(&sk)].concat() }
                        "sign" => S::sign(&sk, &mut ScriptRng::new(d), b"sweep", b"", "pure").unwrap(),
                        _ => S::sign(&sk, &mut ScriptRng::new(d), b"sweep", b"", MODES[1 + s % 3]).unwrap(),
                    }
                };
                let mut outs: std::collections::HashSet<Vec<u8>> = std::collections::HashSet::new();
                outs.insert(shake256(&[&run(&base)], 32));
                for bit in 0..256 { let mut d = base; d[bit / 8] ^= 1 << (bit % 8); outs.insert(shake256(&[&run(&d)], 32)); }
                outs.len()
            });
            let mut e = json!({"ev": "DrawSweep", "entry": entry, "set": S::SET, "nbits": 256, "draw": ident(&base)});
            match r { Ok(n) => { e["distinct_outputs"] = json!(n); w.out.ev(e); } Err((loc, msg)) => { e["panic"] = json!(format!("{}: {}", loc, msg)); w.out.ev(e); } }
        }
    }
    // OS RNG wrappers
    let sk = w.sks.get(&hs).unwrap().clone();
    for entry in ["try_keygen", "try_sign", "try_hash_sign"] {
        let r = guarded(|| {
            let mut outs: std::collections::HashSet<Vec<u8>> = std::collections::HashSet::new();
            for _ in 0..24 {
                let o = match entry {
                    "try_keygen" => { let (pk, _) = S::keygen_os().unwrap(); S::pk_bytes(&pk) }
                    "try_sign" => S::sign_os(&sk, b"fresh", b"", "pure").unwrap(),
                    _ => S::sign_os(&sk, b"fresh", b"", "SHA512").unwrap(),
                };
                outs.insert(o);
            }
            outs.len()
        });
        let mut e = json!({"ev": "Fresh", "entry": entry, "set": S::SET, "calls": 24});
        match r { Ok(n) => { e["distinct_outputs"] = json!(n); w.out.ev(e); } Err((loc, msg)) => { e["panic"] = json!(format!("{}: {}", loc, msg)); w.out.ev(e); } }
    }
}

/// C16: drop of every kind of key object of every provenance
pub fn drops<S: MlDsa>(seed: u64, rounds: usize, out: &mut Out) {
    let mut p = Prng::new(seed, 0x1600 + S::SET as u64);
    let mut w = World::<S>::new(out);
    for r in 0..rounds {
        let (hp, hs) = if r % 2 == 0 { w.keygen_seed(&p.arr32()) } else { w.keygen_rng(&p.arr32(), Fault::None).unwrap() };
        let pkb = w.ser(hp);
        let skb = w.ser(hs);
        let hs2 = w.deser("sk", &skb).unwrap();
        let hp2 = w.deser("pk", &pkb).unwrap();
        let hp3 = w.derive(hs);
        let hs4 = w.clone_key(hs);
        let hp4 = w.clone_key(hp3);
        // use the keys once so they are not trivially dead, then drop all of them
        let sig = w.sign(hs4, b"drop", b"", "pure", &p.arr32(), Fault::None).unwrap_or_default();
        let _ = w.verify(hp4, b"drop", b"", "pure", &sig);
        for h in [hp, hs, hs2, hp2, hp3, hs4, hp4] { w.drop_key(h); }
        // keys read from strings the library did not produce: zero / random rho, K, tr sections, t1 = 0
        let mut foreign: Vec<(&str, Vec<u8>)> = vec![("pk", vec![0u8; S::PK_LEN]), ("pk", p.bytes(S::PK_LEN))];
        { let mut b = pkb.clone(); for x in b[..32].iter_mut() { *x = 0; } foreign.push(("pk", b)); }
        for (lo, hi) in [(0usize, 32usize), (32, 64), (64, 128), (0, 128)] { let mut b = skb.clone(); for x in b[lo..hi].iter_mut() { *x = 0; } foreign.push(("sk", b)); }
        { let mut b = skb.clone(); for x in b[..128].iter_mut() { *x = p.below(256) as u8; } foreign.push(("sk", b)); }
        for (kind, b) in foreign.iter() {
            if let Some(h) = w.deser(kind, b) {
                if *kind == "sk" { let hd = w.derive(h); w.drop_key(hd); }
                w.drop_key(h);
            }
        }
        // keys whose in-memory image has a ZERO coefficient word in the middle of non-zero ones (about one key in a few
        // thousand): an erasure that treats "already zero" specially would stop or skip there.  Found by scanning the
        // object images of many random public-key strings and seeded key pairs.
        if r == 0 {
            fn zero_word_inside<T>(k: &T, skip: usize) -> bool {
                let size = std::mem::size_of::<T>();
                let p = k as *const T as *const u8;
                let words: Vec<i32> = (skip..size).step_by(4).map(|o| unsafe { std::ptr::read_unaligned(p.add(o) as *const i32) }).collect();
                words.chunks(256).any(|poly| { if let Some(z) = poly.iter().position(|w| *w == 0) { poly[z..].iter().any(|w| *w != 0) } else { false } })
            }
            let mut found = 0;
            for i in 0..60000u32 {
                if found >= 3 { break; }
                if i % 8 == 0 {
                    let mut xi = [0u8; 32]; xi[..4].copy_from_slice(&i.to_le_bytes()); xi[4] = 0xd6;
                    let (pk, sk) = S::keygen_seed(&xi);
                    if zero_word_inside(&sk, 128) || zero_word_inside(&pk, 96) { found += 1; let (hp, hs) = w.keygen_seed(&xi); let hd = w.derive(hs); for h in [hp, hs, hd] { w.drop_key(h); } }
                } else {
                    let b = p.bytes(S::PK_LEN);
                    if let Ok(pk) = S::pk_from(&b) { if zero_word_inside(&pk, 96) { found += 1; if let Some(h) = w.deser("pk", &b) { let h2 = w.clone_key(h); w.drop_key(h); w.drop_key(h2); } } }
                }
            }
            w.out.ev(json!({"ev": "Note", "what": format!("keys with an interior zero coefficient word found and dropped: {}", found)}));
        }
    }
}

/// C09 / C11: round trips of extremal and random encodings, behaviour preservation
pub fn roundtrip<S: MlDsa>(seed: u64, nrandom: usize, out: &mut Out) {
    let mut p = Prng::new(seed, 0x0900 + S::SET as u64);
    let mut w = World::<S>::new(out);
    // public keys: every string deserialises and re-serialises identically
    let mut pks: Vec<Vec<u8>> = vec![vec![0u8; S::PK_LEN], vec![0xffu8; S::PK_LEN]];
    let mut t1max = vec![0xffu8; S::PK_LEN]; for b in t1max.iter_mut().take(32) { *b = 0x11; } pks.push(t1max);
    for i in 0..16 { let mut b = vec![0u8; S::PK_LEN]; let pos = 32 + (i * 131) % (S::PK_LEN - 32); b[pos] = 1 << (i % 8); pks.push(b); }
    for _ in 0..nrandom { pks.push(p.bytes(S::PK_LEN)); }
    for b in pks.iter() {
        if let Some(h) = w.deser("pk", b) { let _ = w.ser(h); let h2 = w.clone_key(h); let _ = w.ser(h2); }
    }
    // accepted private-key strings the library did not produce: rho / K / tr / t0 sections modified (FIPS 204
    // accepts them); each must serialise back to exactly the string it was read from
    {
        let (_hp, hs) = w.keygen_seed(&p.arr32());
        let base = w.ser(hs);
        let t0_start = 128 + (S::L + S::K) * 32 * bit_length(2 * S::ETA);
        let mut variants: Vec<Vec<u8>> = vec![];
        for (lo, hi) in [(0usize, 32usize), (32, 64), (64, 128), (t0_start, S::SK_LEN)] {
            let mut b = base.clone(); let k = lo + p.below((hi - lo) as u64) as usize; b[k] ^= 1 << p.below(8); variants.push(b);
            let mut b = base.clone(); for x in b[lo..hi].iter_mut() { *x = p.below(256) as u8; } variants.push(b);
            for fill in [0u8, 0xff] { let mut b = base.clone(); for x in b[lo..hi].iter_mut() { *x = fill; } variants.push(b); }
        }
        // strings with ONE out-of-range s1 / s2 field: they must be refused; if a decoder accepts one (and, say,
        // zeroes the polynomial) the re-serialisation rule below exposes it
        let c = bit_length(2 * S::ETA);
        for idx in [0usize, 255, S::L * 256, (S::L + S::K) * 256 - 1, (S::L + S::K - 1) * 256 + 17] {
            let mut b = base.clone();
            let bit = 128 * 8 + idx * c;
            for t in 0..c { let (by, bi) = ((bit + t) / 8, (bit + t) % 8); b[by] |= 1 << bi; }     // field = all ones = out of range
            variants.push(b);
        }
        for b in variants.iter() {
            if let Some(h) = w.deser("sk", b) { let _ = w.ser(h); let h2 = w.clone_key(h); let _ = w.ser(h2);
                // and it still signs deterministically: same draw, same bytes, on the object and its clone
                let d = p.arr32(); let _ = w.sign(h, b"foreign", b"", "pure", &d, Fault::None); let _ = w.sign(h2, b"foreign", b"", "pure", &d, Fault::None); }
        }
    }
    // private keys: generated, round-tripped twice, and derived public keys; behaviour preserved
    for i in 0..(nrandom / 8).max(2) {
        let (hp, hs) = w.keygen_seed(&p.arr32());
        let skb = w.ser(hs);
        let hs2 = w.deser("sk", &skb).unwrap();
        let skb2 = w.ser(hs2);
        let hs3 = w.deser("sk", &skb2).unwrap();
        let _ = w.ser(hs3);
        let pkb = w.ser(hp);
        let hp2 = w.deser("pk", &pkb).unwrap();
        let hp3 = w.derive(hs3);
        let _ = w.ser(hp3);
        let mode = MODES[i % 4];
        let d = p.arr32();
        let m = p.bytes(20);
        let s1 = w.sign(hs, &m, b"rt", mode, &d, Fault::None).unwrap_or_default();
        let _ = w.sign(hs2, &m, b"rt", mode, &d, Fault::None);
        let _ = w.sign(hs3, &m, b"rt", mode, &d, Fault::None);
        let mut bad = s1.clone(); if !bad.is_empty() { bad[5] ^= 2; }
        for h in [hp, hp2, hp3] {
            let _ = w.verify(h, &m, b"rt", mode, &s1);
            let _ = w.verify(h, &m, b"rt", mode, &bad);
            let _ = w.verify(h, &m, b"tr", mode, &s1);
        }
    }
}

/// M2a: execute behaviours generated by TLC from MC_API against the real library.
/// `file` holds one JSON array of abstract calls per line.
pub fn replay_behaviours<S: MlDsa>(seed: u64, file: &str, out: &mut Out) -> usize {
    let mut p = Prng::new(seed, 0x2a00 + S::SET as u64);
    let seeds: HashMap<&str, [u8; 32]> = [("s1", p.arr32()), ("s2", p.arr32())].into_iter().collect();
    let draws: HashMap<&str, [u8; 32]> = [("r1", p.arr32()), ("r2", p.arr32())].into_iter().collect();
    let msgs: HashMap<&str, Vec<u8>> = [("m1", vec![]), ("m2", p.bytes(137))].into_iter().collect();
    let ctxs: HashMap<&str, Vec<u8>> = [("c0", vec![]), ("c255", p.bytes(255)), ("c256", p.bytes(256)), ("c512", p.bytes(512))].into_iter().collect();
    let text = std::fs::read_to_string(file).expect("behaviour file");
    let mut n = 0;
    for line in text.lines().filter(|l| !l.trim().is_empty()) {
        let calls: Vec<Value> = serde_json::from_str(line).expect("behaviour json");
        out.ev(json!({"ev": "Reset"}));
        let mut w = World::<S>::new(out);
        let mut hmap: HashMap<i64, i64> = HashMap::new();        // spec handle -> world handle
        let mut lin: HashMap<i64, String> = HashMap::new();      // world handle -> seed symbol
        let mut sigs: HashMap<String, Vec<u8>> = HashMap::new(); // abstract signature -> bytes
        let mut sers: HashMap<String, Vec<u8>> = HashMap::new(); // kind/lineage -> bytes
        let g = |c: &Value, k: &str| c[k].as_str().unwrap().to_string();
        let gi = |c: &Value, k: &str| c[k].as_i64().unwrap();
        // abstract signature identity [set, ["seed", s], [mode, ctx, msg], draw] -> key of `sigs`
        let sigkey = |t: &Value| format!("{}|{}|{}|{}|{}", t[1][1].as_str().unwrap_or("?"), t[2][0].as_str().unwrap(), t[2][1].as_str().unwrap(), t[2][2].as_str().unwrap(), t[3].as_str().unwrap());
        // abstract formatted message [mode, ctx, msg] (or ["raw", _, _]) -> the bytes of M'
        let mpbytes = |mp: &Value| -> Vec<u8> { let mode = mp[0].as_str().unwrap(); if mode == "raw" { vec![2u8, 0x78, 0x78] } else { format_msg(mode, &ctxs[mp[1].as_str().unwrap()], &msgs[mp[2].as_str().unwrap()]) } };
        for c in calls.iter() {
            match c["op"].as_str().unwrap() {
                "KeyGenSeed" => { let s = g(c, "seed"); let (hp, hs) = w.keygen_seed(&seeds[s.as_str()]); hmap.insert(gi(c, "pk"), hp); hmap.insert(gi(c, "sk"), hs); lin.insert(hp, s.clone()); lin.insert(hs, s); }
                "KeyGenRng" => {
                    let s = g(c, "draw");
                    let f = match g(c, "fault").as_str() { "none" => Fault::None, "err_before" => Fault::ErrBefore, _ => Fault::ErrAfter(16) };
                    if let Some((hp, hs)) = w.keygen_rng(&seeds[s.as_str()], f) { hmap.insert(gi(c, "pk"), hp); hmap.insert(gi(c, "sk"), hs); lin.insert(hp, s.clone()); lin.insert(hs, s); }
                }
                "Sign" => {
                    let Some(&hs) = hmap.get(&gi(c, "sk")) else { continue };
                    let f = match g(c, "fault").as_str() { "none" => Fault::None, "err_before" => Fault::ErrBefore, _ => Fault::ErrAfter(31) };
                    let (m, cx, mode, d) = (g(c, "msg"), g(c, "ctx"), g(c, "mode"), g(c, "draw"));
                    if let Some(sig) = w.sign(hs, &msgs[m.as_str()], &ctxs[cx.as_str()], &mode, &draws[d.as_str()], f) {
                        sigs.insert(format!("{}|{}|{}|{}|{}", lin[&hs], mode, cx, m, d), sig);
                    }
                }
                "Verify" => {
                    let Some(&hp) = hmap.get(&gi(c, "pk")) else { continue };
                    let Some(sig) = sigs.get(&sigkey(&c["sigof"])).cloned() else { continue };
                    let _ = w.verify(hp, &msgs[g(c, "msg").as_str()], &ctxs[g(c, "ctx").as_str()], &g(c, "mode"), &sig);
                }
                "SignInternal" => {
                    let Some(&hs) = hmap.get(&gi(c, "sk")) else { continue };
                    let (mp, d) = (&c["mp"], g(c, "draw"));
                    if let Some(sig) = w.sign_internal(hs, &mpbytes(mp), &draws[d.as_str()]) {
                        sigs.insert(format!("{}|{}|{}|{}|{}", lin[&hs], mp[0].as_str().unwrap(), mp[1].as_str().unwrap(), mp[2].as_str().unwrap(), d), sig);
                    }
                }
                "VerifyInternal" => {
                    let Some(&hp) = hmap.get(&gi(c, "pk")) else { continue };
                    let Some(sig) = sigs.get(&sigkey(&c["sigof"])).cloned() else { continue };
                    let _ = w.verify_internal(hp, &mpbytes(&c["mp"]), &sig);
                }
                "Ser" => { let Some(&h) = hmap.get(&gi(c, "h")) else { continue }; let kind = if w.pks.contains_key(&h) { "pk" } else { "sk" }; let b = w.ser(h); sers.insert(format!("{}|{}", kind, lin[&h]), b); }
                "Deser" => {
                    let k = &c["of"]; // [kind, set, ["seed", s]]
                    let kind = k[0].as_str().unwrap();
                    let key = format!("{}|{}", kind, k[2][1].as_str().unwrap_or("?"));
                    let Some(b) = sers.get(&key).cloned() else { continue };
                    if let Some(h) = w.deser(kind, &b) { hmap.insert(gi(c, "h"), h); lin.insert(h, k[2][1].as_str().unwrap().to_string()); }
                }
                "Derive" => { let Some(&hs) = hmap.get(&gi(c, "sk")) else { continue }; let h = w.derive(hs); hmap.insert(gi(c, "pk"), h); let l = lin[&hs].clone(); lin.insert(h, l); }
                "Clone" => { let Some(&h) = hmap.get(&gi(c, "h")) else { continue }; let h2 = w.clone_key(h); hmap.insert(gi(c, "h2"), h2); let l = lin[&h].clone(); lin.insert(h2, l); }
                "Drop" => { if let Some(h) = hmap.remove(&gi(c, "h")) { w.drop_key(h); } }
                "Dudect" => {
                    let f = match g(c, "fault").as_str() { "none" => Fault::None, "err_before" => Fault::ErrBefore, _ => Fault::ErrAfter(7) };
                    if matches!(f, Fault::None) && cfg!(debug_assertions) { continue; }
                    let _ = w.dudect(&p.bytes(64), f, gi(c, "at") as usize);
                }
                other => panic!("unknown abstract call {}", other),
            }
        }
        n += 1;
    }
    n
}

#[repr(C)]
struct SockFilter { code: u16, jt: u8, jf: u8, k: u32 }
#[repr(C)]
struct SockFprog { len: u16, filter: *const SockFilter }
extern "C" { fn prctl(option: i32, ...) -> i32; }
/// From now on getrandom(2) fails with EIO in this thread (seccomp filter; x86_64 Linux).  Returns false where the
/// kernel or the sandbox does not allow it.  (Construction taken from the demonstration of the seeded change XC-4.)
#[cfg(all(target_os = "linux", target_arch = "x86_64"))]
fn break_os_rng() -> bool {
    const SYS_GETRANDOM: u32 = 318;
    static FILTER: [SockFilter; 4] = [
        SockFilter { code: 0x20, jt: 0, jf: 0, k: 0 },               // A <- seccomp_data.nr
        SockFilter { code: 0x15, jt: 0, jf: 1, k: SYS_GETRANDOM },   // if A != getrandom skip one
        SockFilter { code: 0x06, jt: 0, jf: 0, k: 0x0005_0000 | 5 }, // return ERRNO(EIO)
        SockFilter { code: 0x06, jt: 0, jf: 0, k: 0x7fff_0000 },     // return ALLOW
    ];
    let prog = SockFprog { len: 4, filter: FILTER.as_ptr() };
    unsafe { prctl(38, 1usize, 0usize, 0usize, 0usize) == 0 && prctl(22, 2usize, &prog as *const SockFprog) == 0 }
}
#[cfg(not(all(target_os = "linux", target_arch = "x86_64")))]
fn break_os_rng() -> bool { false }

/// C12: the OS-RNG convenience functions under a FAILING operating-system generator (the only generator the caller
/// cannot replace): each must return an error - no panic, no key, no signature.  Own process: the filter cannot be removed.
pub fn osrngfail(dir: &str) {
    fn one<S: MlDsa>(out: &mut Out, healthy: bool) {
        let (_pk, sk) = S::keygen_seed(&[S::SET as u8; 32]);
        let calls: Vec<(&str, Box<dyn Fn() -> bool>)> = vec![
            ("try_keygen", Box::new(|| S::keygen_os().is_ok())),
            ("try_sign", Box::new({ let sk = sk.clone(); move || S::sign_os(&sk, b"os", b"", "pure").is_ok() })),
            ("try_hash_sign", Box::new({ let sk = sk.clone(); move || S::sign_os(&sk, b"os", b"", "SHA256").is_ok() })),
        ];
        for (entry, f) in calls {
            let mut e = json!({"ev": "OsRng", "entry": entry, "set": S::SET, "healthy": healthy});
            match guarded(|| f()) { Ok(ok) => { e["ok"] = json!(ok); } Err((loc, msg)) => { e["panic"] = json!(format!("{}: {}", loc, msg)); } }
            out.ev(e);
        }
    }
    let mut out = Out::create(&format!("{}/api_osrngfail_0.ndjson", dir));
    one::<Set44>(&mut out, true); one::<Set65>(&mut out, true); one::<Set87>(&mut out, true);
    if break_os_rng() {
        one::<Set44>(&mut out, false); one::<Set65>(&mut out, false); one::<Set87>(&mut out, false);
    } else {
        out.ev(json!({"ev": "Note", "what": "seccomp filter not available here: the failing OS generator was not simulated"}));
    }
    println!("api scenario=osrngfail events={}", out.finish());
}

/// Interleaved use of ALL THREE parameter sets in one process, with key material shared between them where the formats
/// allow it (the same rho in public keys of different sets; the same seed): whatever one parameter set did before must not
/// change what another one computes.  Each set's calls go to that set's own trace (three Worlds, one process).
pub fn crossset(seed: u64, rounds: usize, dir: &str) {
    let mut o44 = Out::create(&format!("{}/api_crossset_44.ndjson", dir));
    let mut o65 = Out::create(&format!("{}/api_crossset_65.ndjson", dir));
    let mut o87 = Out::create(&format!("{}/api_crossset_87.ndjson", dir));
    {
        let mut p = Prng::new(seed, 0x2c00);
        let mut w44 = World::<Set44>::new(&mut o44);
        let mut w65 = World::<Set65>::new(&mut o65);
        let mut w87 = World::<Set87>::new(&mut o87);
        for r in 0..rounds {
            let xi = p.arr32();
            let (p44, s44) = w44.keygen_seed(&xi);
            let (p65, s65) = w65.keygen_seed(&xi);
            let (p87, s87) = w87.keygen_seed(&xi);
            let (b44, b65, b87) = (w44.ser(p44), w65.ser(p65), w87.ser(p87));
            let m = msg_of(&mut p, r as u64);
            let mode = MODES[r % 4];
            let (d1, d2) = (p.arr32(), p.arr32());
            // baseline in every set
            let g44 = w44.sign(s44, &m, b"x", mode, &d1, Fault::None).unwrap_or_default();
            let g65 = w65.sign(s65, &m, b"x", mode, &d1, Fault::None).unwrap_or_default();
            let g87 = w87.sign(s87, &m, b"x", mode, &d1, Fault::None).unwrap_or_default();
            // foreign public keys that carry ANOTHER set's rho (and otherwise random bytes), used between two uses of the honest keys
            let mk = |rho: &[u8], len: usize, p: &mut Prng| { let mut b = p.bytes(len); b[..32].copy_from_slice(&rho[..32]); b };
            let order = r % 3;
            let f65 = w65.deser("pk", &mk(&b44, Set65::PK_LEN, &mut p)); let f87 = w87.deser("pk", &mk(&b44, Set87::PK_LEN, &mut p));
            let f44 = w44.deser("pk", &mk(if order == 0 { &b65 } else { &b87 }, Set44::PK_LEN, &mut p));
            let f65b = w65.deser("pk", &mk(&b87, Set65::PK_LEN, &mut p)); let f87b = w87.deser("pk", &mk(&b65, Set87::PK_LEN, &mut p));
            if let Some(h) = f65 { let _ = w65.verify(h, &m, b"x", mode, &g65); }
            let _ = w44.verify(p44, &m, b"x", mode, &g44);
            let _ = w44.sign(s44, &m, b"x", mode, &d1, Fault::None);
            if let Some(h) = f87 { let _ = w87.verify(h, &m, b"x", mode, &g87); }
            let _ = w44.verify(p44, &m, b"x", mode, &g44);
            let _ = w44.sign(s44, &m, b"y", mode, &d2, Fault::None);
            if let Some(h) = f44 { let _ = w44.verify(h, &m, b"x", mode, &g44); }
            let _ = w65.verify(p65, &m, b"x", mode, &g65);
            let _ = w65.sign(s65, &m, b"x", mode, &d1, Fault::None);
            let _ = w87.verify(p87, &m, b"x", mode, &g87);
            let _ = w87.sign(s87, &m, b"x", mode, &d1, Fault::None);
            if let Some(h) = f65b { let _ = w65.verify(h, &m, b"x", mode, &g65); }
            let _ = w87.verify(p87, &m, b"x", mode, &g87);
            if let Some(h) = f87b { let _ = w87.verify(h, &m, b"x", mode, &g87); }
            let _ = w65.verify(p65, &m, b"x", mode, &g65);
            let _ = w65.sign(s65, &m, b"y", mode, &d2, Fault::None);
            // derived keys and re-loaded private keys after the interleaving
            let q44 = w44.derive(s44); let _ = w44.ser(q44); let _ = w44.verify(q44, &m, b"x", mode, &g44);
            let q87 = w87.derive(s87); let _ = w87.ser(q87); let _ = w87.verify(q87, &m, b"x", mode, &g87);
        }
    }
    println!("api scenario=crossset events={}", o44.finish() + o65.finish() + o87.finish());
}

pub fn run(a: &Args) {
    let seed = a.u("seed", 1);
    let sc = a.s("scenario", "honest");
    if sc == "crossset" { crossset(seed, a.u("rounds", 3) as usize, &a.s("out", "/verif/work/api")); return; }
    if sc == "osrngfail" { osrngfail(&a.s("out", "/verif/work/api")); return; }
    for set in a.sets() {
        let mut out = Out::create(&format!("{}/api_{}_{}.ndjson", a.s("out", "/verif/work/api"), sc, set));
        match sc.as_str() {
            "honest" => { let (ns, nm) = (a.u("nseeds", 2) as usize, a.u("nmsgs", 6) as usize); for_set!(set, honest(seed, ns, nm, &mut out)) }
            #[cfg(feature = "hooks")]
            "hunt" => { let n = a.u("n", 3000) as usize; for_set!(set, honest_hunt(seed, n, &mut out)) }
            "malformed" => { let n = a.u("nbase", 4) as usize; for_set!(set, malformed(seed, n, &mut out)) }
            "flips" => { let n = a.u("ntuples", 1) as usize; let only = a.s("fields", ""); for_set!(set, flips(seed, n, &only, &mut out)) }
            "binding" => { let n = a.u("nbase", 6) as usize; for_set!(set, binding(seed, n, &mut out)) }
            "ctxlimit" => {
                let n = a.u("maxlen", 1024) as usize;
                let extra: Vec<usize> = a.s("extra", "").split(',').filter(|s| !s.is_empty()).map(|s| s.parse().unwrap()).collect();
                for_set!(set, ctxlimit(seed, n, &extra, &mut out))
            }
            "rngfaults" => { let n = a.u("nsweeps", 1) as usize; for_set!(set, rngfaults(seed, n, &mut out)) }
            "drops" => { let n = a.u("rounds", 2) as usize; for_set!(set, drops(seed, n, &mut out)) }
            "behaviours" => { let f = a.s("file", ""); let n = for_set!(set, replay_behaviours(seed, &f, &mut out)); println!("behaviours executed: {}", n); }
            "roundtrip" => { let n = a.u("nrandom", 64) as usize; for_set!(set, roundtrip(seed, n, &mut out)) }
            _ => panic!("unknown scenario"),
        }
        println!("api scenario={} set={} events={}", sc, set, out.finish());
    }
}
