// Uniform, byte-vector view of the three parameter sets of the library under test.
#![allow(deprecated)]
use fips204::traits::{KeyGen, SerDes, Signer, Verifier};
#[cfg(feature = "hooks")]
use fips204::verif_hooks as vh;
use fips204::Ph;
use rand_core::CryptoRngCore;

pub type Poly = [i32; 256];

pub fn ph_of(mode: &str) -> Option<Ph> {
    match mode {
        "SHA256" => Some(Ph::SHA256),
        "SHA512" => Some(Ph::SHA512),
        "SHAKE128" => Some(Ph::SHAKE128),
        _ => None,
    }
}
pub const MODES: [&str; 4] = ["pure", "SHA256", "SHA512", "SHAKE128"];

pub trait MlDsa {
    const SET: u32;
    const K: usize;
    const L: usize;
    const ETA: i32;
    const TAU: i32;
    const GAMMA1: i32;
    const GAMMA2: i32;
    const OMEGA: i32;
    const LAMBDA: usize;
    const PK_LEN: usize;
    const SK_LEN: usize;
    const SIG_LEN: usize;
    type Pk: Clone;
    type Sk: Clone;
    fn beta() -> i32 { Self::TAU * Self::ETA }
    fn keygen_seed(xi: &[u8; 32]) -> (Self::Pk, Self::Sk);
    fn keygen_rng(rng: &mut impl CryptoRngCore) -> Result<(Self::Pk, Self::Sk), &'static str>;
    fn keygen_os() -> Result<(Self::Pk, Self::Sk), &'static str>;
    fn pk_bytes(pk: &Self::Pk) -> Vec<u8>;
    fn sk_bytes(sk: &Self::Sk) -> Vec<u8>;
    fn pk_from(b: &[u8]) -> Result<Self::Pk, &'static str>;
    fn sk_from(b: &[u8]) -> Result<Self::Sk, &'static str>;
    fn derive(sk: &Self::Sk) -> Self::Pk;
    /// mode "pure" or one of the pre-hash names
    fn sign(sk: &Self::Sk, rng: &mut impl CryptoRngCore, m: &[u8], ctx: &[u8], mode: &str) -> Result<Vec<u8>, &'static str>;
    fn sign_os(sk: &Self::Sk, m: &[u8], ctx: &[u8], mode: &str) -> Result<Vec<u8>, &'static str>;
    fn verify(pk: &Self::Pk, m: &[u8], sig: &[u8], ctx: &[u8], mode: &str) -> bool;
    fn internal_sign(sk: &Self::Sk, mp: &[u8], rnd: [u8; 32]) -> Vec<u8>;
    fn internal_verify(pk: &Self::Pk, mp: &[u8], sig: &[u8]) -> bool;
    fn dudect(rng: &mut impl CryptoRngCore, m: &[u8]) -> Result<Vec<u8>, &'static str>;
    fn pk_size() -> usize;
    fn sk_size() -> usize;
    // hooks
    #[cfg(feature = "hooks")]
    fn sig_decode(sig: &[u8]) -> Option<(Vec<u8>, Vec<Poly>, Vec<Poly>)>;
    #[cfg(feature = "hooks")]
    fn sig_encode(ct: &[u8], z: &[Poly], h: &[Poly]) -> Vec<u8>;
    #[cfg(feature = "hooks")]
    fn sk_decode(sk: &[u8]) -> Option<(Vec<Poly>, Vec<Poly>, Vec<Poly>)>;
    #[cfg(feature = "hooks")]
    fn pk_decode(pk: &[u8]) -> Option<Vec<Poly>>;
    #[cfg(feature = "hooks")]
    fn hint_unpack(y: &[u8]) -> Option<Vec<Poly>>;
    #[cfg(feature = "hooks")]
    fn hint_pack(h: &[Poly]) -> Vec<u8>;
    #[cfg(feature = "hooks")]
    fn w1_encode(w1: &[Poly]) -> Vec<u8>;
    #[cfg(feature = "hooks")]
    fn expand_a(rho: &[u8; 32]) -> Vec<Vec<Poly>>;
    #[cfg(feature = "hooks")]
    fn mat_vec_mul(a: &[Vec<Poly>], u: &[Poly]) -> Vec<Poly>;
    #[cfg(feature = "hooks")]
    fn ntt_l(v: &[Poly]) -> Vec<Poly>;
    #[cfg(feature = "hooks")]
    fn inv_ntt_k(v: &[Poly]) -> Vec<Poly>;
}

macro_rules! impl_set {
    ($name:ident, $m:ident, $set:expr, $k:expr, $l:expr, $eta:expr, $tau:expr, $g1:expr, $g2:expr, $omega:expr, $lambda:expr) => {
        pub struct $name;
        impl MlDsa for $name {
            const SET: u32 = $set;
            const K: usize = $k;
            const L: usize = $l;
            const ETA: i32 = $eta;
            const TAU: i32 = $tau;
            const GAMMA1: i32 = $g1;
            const GAMMA2: i32 = $g2;
            const OMEGA: i32 = $omega;
            const LAMBDA: usize = $lambda;
            const PK_LEN: usize = fips204::$m::PK_LEN;
            const SK_LEN: usize = fips204::$m::SK_LEN;
            const SIG_LEN: usize = fips204::$m::SIG_LEN;
            type Pk = fips204::$m::PublicKey;
            type Sk = fips204::$m::PrivateKey;
            fn keygen_seed(xi: &[u8; 32]) -> (Self::Pk, Self::Sk) { fips204::$m::KG::keygen_from_seed(xi) }
            fn keygen_rng(rng: &mut impl CryptoRngCore) -> Result<(Self::Pk, Self::Sk), &'static str> {
                fips204::$m::try_keygen_with_rng(rng)
            }
            fn keygen_os() -> Result<(Self::Pk, Self::Sk), &'static str> { fips204::$m::try_keygen() }
            fn pk_bytes(pk: &Self::Pk) -> Vec<u8> {
                let (a, b) = (pk.clone().into_bytes().to_vec(), via_trait_bytes(pk.clone()));
                assert!(a == b, "VERIF: method-syntax and trait-dispatched into_bytes of a public key disagree");
                a
            }
            fn sk_bytes(sk: &Self::Sk) -> Vec<u8> {
                let (a, b) = (sk.clone().into_bytes().to_vec(), via_trait_bytes(sk.clone()));
                assert!(a == b, "VERIF: method-syntax and trait-dispatched into_bytes of a private key disagree");
                a
            }
            fn pk_from(b: &[u8]) -> Result<Self::Pk, &'static str> {
                let a: [u8; fips204::$m::PK_LEN] = b.try_into().map_err(|_| "length")?;
                Self::Pk::try_from_bytes(a)
            }
            fn sk_from(b: &[u8]) -> Result<Self::Sk, &'static str> {
                let a: [u8; fips204::$m::SK_LEN] = b.try_into().map_err(|_| "length")?;
                Self::Sk::try_from_bytes(a)
            }
            fn derive(sk: &Self::Sk) -> Self::Pk {
                let (a, b) = (sk.get_public_key(), via_trait_derive(sk));
                assert!(a.clone().into_bytes() == b.into_bytes(), "VERIF: method-syntax and trait-dispatched get_public_key disagree");
                a
            }
            fn sign(sk: &Self::Sk, rng: &mut impl CryptoRngCore, m: &[u8], ctx: &[u8], mode: &str) -> Result<Vec<u8>, &'static str> {
                match ph_of(mode) {
                    None => sk.try_sign_with_rng(rng, m, ctx).map(|s| s.to_vec()),
                    Some(ph) => sk.try_hash_sign_with_rng(rng, m, ctx, &ph).map(|s| s.to_vec()),
                }
            }
            fn sign_os(sk: &Self::Sk, m: &[u8], ctx: &[u8], mode: &str) -> Result<Vec<u8>, &'static str> {
                match ph_of(mode) {
                    None => sk.try_sign(m, ctx).map(|s| s.to_vec()),
                    Some(ph) => sk.try_hash_sign(m, ctx, &ph).map(|s| s.to_vec()),
                }
            }
            fn verify(pk: &Self::Pk, m: &[u8], sig: &[u8], ctx: &[u8], mode: &str) -> bool {
                let Ok(s): Result<[u8; fips204::$m::SIG_LEN], _> = sig.try_into() else { return false };
                // both ways a caller can reach the function: method syntax on the concrete type (an inherent method of the
                // same name would win) and dispatch through the trait (generic code, trait objects).  They are one function.
                let (a, b) = match ph_of(mode) {
                    None => (pk.verify(m, &s, ctx), via_trait_verify(pk, m, &s, ctx, None)),
                    Some(ph) => (pk.hash_verify(m, &s, ctx, &ph), via_trait_verify(pk, m, &s, ctx, Some(&ph))),
                };
                assert!(a == b, "VERIF: method-syntax call ({}) and trait-dispatched call ({}) of verify disagree", a, b);
                a
            }
            fn internal_sign(sk: &Self::Sk, mp: &[u8], rnd: [u8; 32]) -> Vec<u8> {
                fips204::$m::_internal_sign(sk, mp, &[], rnd).unwrap().to_vec()
            }
            fn internal_verify(pk: &Self::Pk, mp: &[u8], sig: &[u8]) -> bool {
                let Ok(s): Result<[u8; fips204::$m::SIG_LEN], _> = sig.try_into() else { return false };
                fips204::$m::_internal_verify(pk, mp, &s, &[])
            }
            fn dudect(rng: &mut impl CryptoRngCore, m: &[u8]) -> Result<Vec<u8>, &'static str> {
                fips204::$m::dudect_keygen_sign_with_rng(rng, m).map(|s| s.to_vec())
            }
            fn pk_size() -> usize { std::mem::size_of::<Self::Pk>() }
            fn sk_size() -> usize { std::mem::size_of::<Self::Sk>() }
            #[cfg(feature = "hooks")]
            fn sig_decode(sig: &[u8]) -> Option<(Vec<u8>, Vec<Poly>, Vec<Poly>)> {
                let s: [u8; fips204::$m::SIG_LEN] = sig.try_into().ok()?;
                vh::sig_decode::<$k, $l, { $lambda / 4 }, { fips204::$m::SIG_LEN }>($g1, $omega, &s)
                    .map(|(c, z, h)| (c.to_vec(), z.to_vec(), h.to_vec()))
            }
            #[cfg(feature = "hooks")]
            fn sig_encode(ct: &[u8], z: &[Poly], h: &[Poly]) -> Vec<u8> {
                let c: [u8; $lambda / 4] = ct.try_into().unwrap();
                let z: [Poly; $l] = z.try_into().unwrap();
                let h: [Poly; $k] = h.try_into().unwrap();
                vh::sig_encode::<$k, $l, { $lambda / 4 }, { fips204::$m::SIG_LEN }>($g1, $omega, &c, &z, &h).to_vec()
            }
            #[cfg(feature = "hooks")]
            fn sk_decode(sk: &[u8]) -> Option<(Vec<Poly>, Vec<Poly>, Vec<Poly>)> {
                let s: [u8; fips204::$m::SK_LEN] = sk.try_into().ok()?;
                vh::sk_decode::<$k, $l, { fips204::$m::SK_LEN }>($eta, &s)
                    .map(|(_, _, _, s1, s2, t0)| (s1.to_vec(), s2.to_vec(), t0.to_vec()))
            }
            #[cfg(feature = "hooks")]
            fn pk_decode(pk: &[u8]) -> Option<Vec<Poly>> {
                let p: [u8; fips204::$m::PK_LEN] = pk.try_into().ok()?;
                vh::pk_decode::<$k, { fips204::$m::PK_LEN }>(&p).map(|(_, t1)| t1.to_vec())
            }
            #[cfg(feature = "hooks")]
            fn hint_unpack(y: &[u8]) -> Option<Vec<Poly>> { vh::hint_bit_unpack::<$k>($omega, y).map(|h| h.to_vec()) }
            #[cfg(feature = "hooks")]
            fn hint_pack(h: &[Poly]) -> Vec<u8> {
                let h: [Poly; $k] = h.try_into().unwrap();
                let mut out = vec![0u8; $omega as usize + $k];
                vh::hint_bit_pack::<false, $k>($omega, &h, &mut out);
                out
            }
            #[cfg(feature = "hooks")]
            fn w1_encode(w1: &[Poly]) -> Vec<u8> {
                let w: [Poly; $k] = w1.try_into().unwrap();
                let bits = vh::bit_length((vh::Q - 1) / (2 * $g2) - 1);
                let mut out = vec![0u8; 32 * $k * bits];
                vh::w1_encode::<$k>($g2, &w, &mut out);
                out
            }
            #[cfg(feature = "hooks")]
            fn expand_a(rho: &[u8; 32]) -> Vec<Vec<Poly>> {
                vh::expand_a::<$k, $l>(rho).iter().map(|r| r.to_vec()).collect()
            }
            #[cfg(feature = "hooks")]
            fn mat_vec_mul(a: &[Vec<Poly>], u: &[Poly]) -> Vec<Poly> {
                let a: [[Poly; $l]; $k] = core::array::from_fn(|i| a[i].clone().try_into().unwrap());
                let u: [Poly; $l] = u.try_into().unwrap();
                vh::mat_vec_mul::<$k, $l>(&a, &u).to_vec()
            }
            #[cfg(feature = "hooks")]
            fn ntt_l(v: &[Poly]) -> Vec<Poly> {
                let v: [Poly; $l] = v.try_into().unwrap();
                vh::ntt::<$l>(&v).to_vec()
            }
            #[cfg(feature = "hooks")]
            fn inv_ntt_k(v: &[Poly]) -> Vec<Poly> {
                let v: [Poly; $k] = v.try_into().unwrap();
                vh::inv_ntt::<$k>(&v).to_vec()
            }
        }
    };
}

impl_set!(Set44, ml_dsa_44, 44, 4, 4, 2, 39, 1 << 17, (8_380_417 - 1) / 88, 80, 128);
impl_set!(Set65, ml_dsa_65, 65, 6, 5, 4, 49, 1 << 19, (8_380_417 - 1) / 32, 55, 192);
impl_set!(Set87, ml_dsa_87, 87, 8, 7, 2, 60, 1 << 19, (8_380_417 - 1) / 32, 75, 256);

/// the same calls through the traits only (what generic code and trait objects execute)
pub fn via_trait_verify<V: fips204::traits::Verifier>(v: &V, m: &[u8], s: &V::Signature, ctx: &[u8], ph: Option<&Ph>) -> bool {
    match ph { None => fips204::traits::Verifier::verify(v, m, s, ctx), Some(ph) => fips204::traits::Verifier::hash_verify(v, m, s, ctx, ph) }
}
pub fn via_trait_bytes<K: fips204::traits::SerDes>(k: K) -> Vec<u8> where K::ByteArray: AsRef<[u8]> { fips204::traits::SerDes::into_bytes(k).as_ref().to_vec() }
pub fn via_trait_derive<S: fips204::traits::Signer>(s: &S) -> S::PublicKey { fips204::traits::Signer::get_public_key(s) }

/// run a generic function for one set number
#[macro_export]
macro_rules! for_set {
    ($set:expr, $f:ident ( $($a:expr),* )) => {
        match $set {
            44 => $f::<$crate::api::Set44>($($a),*),
            65 => $f::<$crate::api::Set65>($($a),*),
            87 => $f::<$crate::api::Set87>($($a),*),
            _ => panic!("unknown set"),
        }
    };
}
