// C08 / C10: encoder and decoder evaluations judged by TLC from Codec.tla (TraceCodec.tla).
use crate::api::*;
use crate::fcases::hint_mutants;
use crate::for_set;
use crate::util::*;
use fips204::verif_hooks as vh;
use serde_json::{json, Value};

fn jp(p: &Poly) -> Value { Value::Array(p.iter().map(|&x| json!(x)).collect()) }
fn jv(v: &[Poly]) -> Value { Value::Array(v.iter().map(jp).collect()) }
fn ones(h: &[Poly]) -> Value { Value::Array(h.iter().map(|p| Value::Array(p.iter().enumerate().filter(|(_, &x)| x != 0).map(|(i, _)| json!(i)).collect())).collect()) }
fn bitlen(x: i32) -> usize { vh::bit_length(x) }

/// a well-formed hint section with the given per-polynomial weights
fn hint_section<S: MlDsa>(p: &mut Prng, weights: &[usize]) -> Vec<u8> {
    let om = S::OMEGA as usize;
    let mut y = vec![0u8; om + S::K];
    let mut idx = 0;
    for (i, &w) in weights.iter().enumerate() {
        let mut pos: Vec<u8> = vec![];
        while pos.len() < w { let c = p.below(256) as u8; if !pos.contains(&c) { pos.push(c); } }
        pos.sort();
        for c in pos { y[idx] = c; idx += 1; }
        y[om + i] = idx as u8;
    }
    y
}
fn rand_weights<S: MlDsa>(p: &mut Prng, total: usize) -> Vec<usize> {
    let mut w = vec![0usize; S::K];
    for _ in 0..total { w[p.below(S::K as u64) as usize] += 1; }
    w
}

fn ev_hint_unpack<S: MlDsa>(out: &mut Out, what: &str, y: &[u8]) {
    match guarded(|| S::hint_unpack(y)) {
        Ok(r) => out.ev(json!({"ev": "HintUnpack", "set": S::SET, "what": what, "y": jbytes(y), "ok": r.is_some(), "h": r.map(|h| ones(&h)).unwrap_or(json!([]))})),
        Err((loc, msg)) => out.ev(json!({"ev": "Panic", "set": S::SET, "what": format!("hint_bit_unpack {} | {}: {}", what, loc, msg)})),
    }
}
fn ev_bit_unpack(out: &mut Out, what: &str, v: &[u8], a: i32, b: i32) {
    match guarded(|| vh::bit_unpack(v, a, b)) {
        Ok(r) => out.ev(json!({"ev": "BitUnpack", "what": what, "a": a, "b": b, "v": jbytes(v), "ok": r.is_some(), "w": r.map(|w| jp(&w)).unwrap_or(json!([]))})),
        Err((loc, msg)) => out.ev(json!({"ev": "Panic", "what": format!("bit_unpack({},{}) {} | {}: {}", a, b, what, loc, msg)})),
    }
}
fn ev_bit_pack(out: &mut Out, what: &str, w: &Poly, a: i32, b: i32) {
    let r = guarded(|| { let mut v = vec![0u8; 32 * bitlen(a + b)]; if a == 0 { vh::simple_bit_pack(w, b, &mut v) } else { vh::bit_pack(w, a, b, &mut v) }; v });
    match r {
        Ok(v) => {
            out.ev(json!({"ev": "BitPack", "what": what, "a": a, "b": b, "w": jp(w), "v": jbytes(&v)}));
            ev_bit_unpack(out, &format!("unpack(pack({}))", what), &v, a, b);
        }
        Err((loc, msg)) => out.ev(json!({"ev": "Panic", "what": format!("bit_pack({},{}) {} | {}: {}", a, b, what, loc, msg)})),
    }
}

pub fn generic(seed: u64, thorough: bool, out: &mut Out) {
    let mut p = Prng::new(seed, 0x0800);
    // every (a, b) shape the library uses
    let shapes: [(i32, i32); 8] = [(2, 2), (4, 4), ((1 << 12) - 1, 1 << 12), ((1 << 17) - 1, 1 << 17), ((1 << 19) - 1, 1 << 19), (0, 1023), (0, 43), (0, 15)];
    for (a, b) in shapes {
        let c = bitlen(a + b);
        ev_bit_pack(out, "all at -a", &[-a; 256], a, b);
        ev_bit_pack(out, "all at b", &[b; 256], a, b);
        ev_bit_pack(out, "alternating -a, b", &core::array::from_fn(|n| if n % 2 == 0 { -a } else { b }), a, b);
        ev_bit_pack(out, "ramp", &core::array::from_fn(|n| -a + ((n as i64 * (a as i64 + b as i64)) / 255) as i32), a, b);
        // a single extreme at every bit phase
        for phase in 0..8usize {
            if let Some(i) = (0..256usize).find(|i| (i * c) % 8 == phase) {
                let mut w = [0i32; 256]; w[i] = b; ev_bit_pack(out, &format!("single b at bit phase {}", phase), &w, a, b);
                let mut w = [0i32; 256]; w[i] = -a; ev_bit_pack(out, &format!("single -a at bit phase {}", phase), &w, a, b);
            }
        }
        for _ in 0..(if thorough { 12 } else { 2 }) { let w: Poly = core::array::from_fn(|_| p.range(-a as i64, b as i64) as i32); ev_bit_pack(out, "random in range", &w, a, b); }
        // decoding arbitrary bytes (a > 0 shapes are the ones exposed to untrusted input)
        if a > 0 || b == 1023 {
            let n = 32 * c;
            ev_bit_unpack(out, "all 00", &vec![0u8; n], a, b);
            ev_bit_unpack(out, "all FF", &vec![0xffu8; n], a, b);
            for _ in 0..(if thorough { 16 } else { 3 }) { ev_bit_unpack(out, "random bytes", &p.bytes(n), a, b); }
            // one field set to each possible value, everything else in range
            if c <= 4 { for f in 0..(1u32 << c) { let mut w = [0i32; 256]; w[0] = 0; let mut v = vec![0u8; n];
                if a == 0 { vh::simple_bit_pack(&w, b, &mut v) } else { vh::bit_pack(&w, a, b, &mut v) };
                let i = p.below(256) as usize; let bit = i * c;
                for t in 0..c { let (by, bi) = ((bit + t) / 8, (bit + t) % 8); v[by] = (v[by] & !(1 << bi)) | ((((f >> t) & 1) as u8) << bi); }
                w[0] = 0; ev_bit_unpack(out, &format!("field {} = {}", i, f), &v, a, b); } }
        }
    }
}

pub fn per_set<S: MlDsa>(seed: u64, thorough: bool, out: &mut Out) {
    let mut p = Prng::new(seed, 0x0810 + S::SET as u64);
    let om = S::OMEGA as usize;
    // ---- hint sections: well-formed ones of every weight profile, and every malformation class
    let mut bases: Vec<(String, Vec<u8>)> = vec![];
    bases.push(("empty".into(), hint_section::<S>(&mut p, &vec![0; S::K])));
    let mut w = vec![0usize; S::K]; w[0] = om; bases.push(("omega hints in the first polynomial".into(), hint_section::<S>(&mut p, &w)));
    let mut w = vec![0usize; S::K]; w[S::K - 1] = om; bases.push(("omega hints in the last polynomial".into(), hint_section::<S>(&mut p, &w)));
    let mut w = vec![0usize; S::K]; w[0] = 3; w[S::K - 1] = 2; bases.push(("hints in first and last polynomial only (empty ones between)".into(), hint_section::<S>(&mut p, &w)));
    let mut w = vec![0usize; S::K]; w[1] = 5; bases.push(("hints in the second polynomial only".into(), hint_section::<S>(&mut p, &w)));
    for t in 0..(if thorough { 60 } else { 8 }) { let tot = [om, om - 1, om / 2, 1, 2, 7][t % 6]; let w = rand_weights::<S>(&mut p, tot); bases.push((format!("random profile, weight {}", tot), hint_section::<S>(&mut p, &w))); }
    for (name, y) in crate::fcases::hint_count_lattice::<S>(if thorough { 2 } else { 1 }) { ev_hint_unpack::<S>(out, &name, &y); }
    for (name, y) in bases.iter() {
        ev_hint_unpack::<S>(out, name, y);
        // mutation classes of fcases::hint_mutants work on whole signatures: wrap the section in a dummy one
        let mut sig = vec![0u8; S::SIG_LEN];
        let hs = S::SIG_LEN - om - S::K;
        sig[hs..].copy_from_slice(y);
        for (mname, s2) in hint_mutants::<S>(&sig, &mut p) { ev_hint_unpack::<S>(out, &format!("{} / {}", name, mname), &s2[hs..]); }
        // counts of EMPTY polynomials lowered (a decoder that only advances would not notice)
        let cnt = |i: usize| y[om + i] as usize;
        for i in 1..S::K {
            if cnt(i) == cnt(i - 1) && cnt(i) > 0 {
                let mut y2 = y.clone(); y2[om + i] = (cnt(i) - 1) as u8; ev_hint_unpack::<S>(out, &format!("{} / count of empty poly {} lowered by one", name, i), &y2);
                let mut y3 = y.clone(); y3[om + i] = 0; ev_hint_unpack::<S>(out, &format!("{} / count of empty poly {} set to 0", name, i), &y3);
            }
        }
        // every single count byte +-1, and one index byte changed to each neighbour relation
        for i in 0..S::K { for d in [1i32, -1] { let v = y[om + i] as i32 + d; if (0..256).contains(&v) { let mut y2 = y.clone(); y2[om + i] = v as u8; ev_hint_unpack::<S>(out, &format!("{} / count[{}] {:+}", name, i, d), &y2); } } }
    }
    // repeated positions (must be refused: positions strictly increase inside a polynomial), for positions at both ends of the
    // byte range (0, 255: where "next allowed position" arithmetic can wrap or saturate) and in the middle, as the last pair and
    // as an inner pair of a polynomial, in the first / a middle / the last polynomial
    for rep in [0u8, 1, 127, 128, 254, 255] {
        for i in [0usize, S::K / 2, S::K - 1] {
            for inner in [false, true] {
                let mut y = vec![0u8; om + S::K];
                let mut idx = 0usize;
                for j in 0..S::K {
                    if j == i {
                        let mut pos: Vec<u8> = vec![];
                        if rep >= 2 { pos.push(rep / 2); }
                        pos.push(rep); pos.push(rep);
                        if inner && rep < 255 { pos.push(255); }
                        if inner && rep == 255 { pos.insert(0, 3); }
                        for q in pos { y[idx] = q; idx += 1; }
                    }
                    y[om + j] = idx as u8;
                }
                ev_hint_unpack::<S>(out, &format!("position {} repeated in poly {}{}", rep, i, if inner { " (inner pair)" } else { "" }), &y);
            }
        }
    }
    for _ in 0..(if thorough { 400 } else { 40 }) { ev_hint_unpack::<S>(out, "random bytes", &p.bytes(om + S::K)); }
    // random structured sections with small random byte edits (valid and invalid mixed)
    for t in 0..(if thorough { 3000 } else { 300 }) {
        let tot = p.below(om as u64 + 1) as usize;
        let wts = rand_weights::<S>(&mut p, tot);
        let mut y = hint_section::<S>(&mut p, &wts);
        for _ in 0..(t % 3) { let i = p.below(y.len() as u64) as usize; y[i] = match p.below(4) { 0 => 0, 1 => y[i].wrapping_add(1), 2 => y[i].wrapping_sub(1), _ => p.below(256) as u8 }; }
        ev_hint_unpack::<S>(out, "structured + random edits", &y);
    }
    // HintBitPack on vectors of every weight profile
    for t in 0..(if thorough { 40 } else { 8 }) {
        let tot = [0usize, om, om - 1, 1, om / 2][t % 5];
        let wts = if t % 7 == 3 { let mut w = vec![0; S::K]; w[t % S::K] = tot; w } else { rand_weights::<S>(&mut p, tot) };
        let y = hint_section::<S>(&mut p, &wts);
        if let Some(h) = S::hint_unpack(&y) {
            match guarded(|| S::hint_pack(&h)) {
                Ok(y2) => out.ev(json!({"ev": "HintPack", "set": S::SET, "h": ones(&h), "y": jbytes(&y2)})),
                Err((loc, msg)) => out.ev(json!({"ev": "Panic", "set": S::SET, "what": format!("hint_bit_pack | {}: {}", loc, msg)})),
            }
        }
    }
    // HintBitPack at full weight with every placement of the LAST hint: alone in its polynomial (each polynomial in turn), at
    // position 0 / 255, with empty polynomials after it
    for i in 0..S::K {
        for lastpos in [0usize, 255, 77] {
            let mut h: Vec<Poly> = vec![[0i32; 256]; S::K];
            // omega - 1 hints in the polynomials before i (or in polynomial 0 when i = 0 has to hold them all but one)
            let mut placed = 0usize;
            let mut q = 0usize;
            while placed < om - 1 { let (pi, n) = if i == 0 { (0usize, q + 1) } else { (q % i, (q / i) * 2 + 1) }; if n < 256 && !(pi == i && n == lastpos) && h[pi][n] == 0 { h[pi][n] = 1; placed += 1; } q += 1; }
            if h[i][lastpos] == 0 { h[i][lastpos] = 1; } else { continue; }
            match guarded(|| S::hint_pack(&h)) {
                Ok(y2) => { out.ev(json!({"ev": "HintPack", "set": S::SET, "what": format!("weight omega, last hint alone at poly {} position {}", i, lastpos), "h": ones(&h), "y": jbytes(&y2)}));
                            ev_hint_unpack::<S>(out, &format!("unpack(pack(weight omega, last hint alone at poly {} position {}))", i, lastpos), &y2); }
                Err((loc, msg)) => out.ev(json!({"ev": "Panic", "set": S::SET, "what": format!("hint_bit_pack | {}: {}", loc, msg)})),
            }
        }
    }
    // ---- whole signatures: honest ones, their hint malformations, random bytes
    let (pk, sk) = S::keygen_seed(&p.arr32());
    let mut nsig = 0u64; let mut nfail = 0u64;
    for i in 0..(if thorough { 2000 } else { 200 }) {
        let sig = S::sign(&sk, &mut ScriptRng::new(&p.arr32()), &p.bytes(16), b"", MODES[i % 4]).unwrap();
        // canonical: decode then encode reproduces the bytes (native identity, no oracle needed)
        if let Some((ct, z, h)) = S::sig_decode(&sig) { nsig += 1; if S::sig_encode(&ct, &z, &h) != sig { nfail += 1; } } else { nfail += 1; }
        if i < (if thorough { 12 } else { 2 }) {
            match guarded(|| S::sig_decode(&sig)) {
                Ok(Some((ct, z, h))) => {
                    out.ev(json!({"ev": "SigDecode", "set": S::SET, "what": "honest", "sig": jbytes(&sig), "ok": true, "ct": jbytes(&ct), "z": jv(&z), "h": ones(&h)}));
                    out.ev(json!({"ev": "SigEncode", "set": S::SET, "ct": jbytes(&ct), "z": jv(&z), "h": ones(&h), "sig": jbytes(&S::sig_encode(&ct, &z, &h))}));
                }
                Ok(None) => out.ev(json!({"ev": "SigDecode", "set": S::SET, "what": "honest", "sig": jbytes(&sig), "ok": false, "ct": [], "z": [], "h": []})),
                Err((loc, msg)) => out.ev(json!({"ev": "Panic", "set": S::SET, "what": format!("sig_decode | {}: {}", loc, msg)})),
            }
            for (mname, s2) in hint_mutants::<S>(&sig, &mut p).into_iter().take(if thorough { 40 } else { 6 }) {
                let r = S::sig_decode(&s2);
                out.ev(json!({"ev": "SigDecode", "set": S::SET, "what": format!("honest / {}", mname), "sig": jbytes(&s2), "ok": r.is_some(), "ct": [], "z": [], "h": []}));
            }
        }
    }
    out.ev(json!({"ev": "Sweep", "set": S::SET, "what": "sig_encode(sig_decode(s)) = s on honest signatures", "cases": nsig, "failures": nfail}));
    let _ = pk;
    // ---- w1Encode
    let m = (vh::Q - 1) / (2 * S::GAMMA2) - 1;
    for t in 0..(if thorough { 8 } else { 2 }) {
        let w1: Vec<Poly> = (0..S::K).map(|_| match t { 0 => [m; 256], 1 => core::array::from_fn(|n| if n % 2 == 0 { m } else { 0 }), _ => core::array::from_fn(|_| p.range(0, m as i64) as i32) }).collect();
        match guarded(|| S::w1_encode(&w1)) {
            Ok(o) => out.ev(json!({"ev": "W1Encode", "set": S::SET, "w1": jv(&w1), "out": jbytes(&o)})),
            Err((loc, msg)) => out.ev(json!({"ev": "Panic", "set": S::SET, "what": format!("w1_encode | {}: {}", loc, msg)})),
        }
    }
    // ---- public keys: every string decodes and re-encodes to itself
    let (mut npk, mut fpk) = (0u64, 0u64);
    for t in 0..(if thorough { 20000 } else { 2000 }) {
        let b = match t { 0 => vec![0u8; S::PK_LEN], 1 => vec![0xffu8; S::PK_LEN], _ => p.bytes(S::PK_LEN) };
        match guarded(|| S::pk_from(&b).map(|k| S::pk_bytes(&k))) { Ok(Ok(b2)) => { npk += 1; if b2 != b { fpk += 1; } } _ => { npk += 1; fpk += 1; } }
        if t < (if thorough { 6 } else { 3 }) {
            let r = S::pk_decode(&b);
            out.ev(json!({"ev": "PkDecode", "set": S::SET, "pk": jbytes(&b), "ok": r.is_some(), "t1": r.map(|t| jv(&t)).unwrap_or(json!([]))}));
        }
    }
    out.ev(json!({"ev": "Sweep", "set": S::SET, "what": "into_bytes(try_from_bytes(pk)) = pk on extremal and random public-key strings", "cases": npk, "failures": fpk}));
}

// ------------------------------------------------------------------------------- C10
/// set field number `idx` (c bits each, starting at byte 128) of a private-key string
pub fn patch_field(sk: &mut [u8], c: usize, idx: usize, val: u32) {
    let bit = 128 * 8 + idx * c;
    for t in 0..c { let (by, bi) = ((bit + t) / 8, (bit + t) % 8); sk[by] = (sk[by] & !(1 << bi)) | ((((val >> t) & 1) as u8) << bi); }
}
pub fn skfields<S: MlDsa>(seed: u64, thorough: bool, out: &mut Out) {
    let mut p = Prng::new(seed, 0x1000 + S::SET as u64);
    let c = bitlen(2 * S::ETA);
    let nfields = (S::L + S::K) * 256;
    let (_pk, sk) = S::keygen_seed(&p.arr32());
    let base = S::sk_bytes(&sk);
    let (mut cases, mut fails) = (0u64, 0u64);
    let mut keep: Vec<(String, Vec<u8>, bool)> = vec![];
    // every field x every value
    for idx in 0..nfields {
        for val in 0..(1u32 << c) {
            let mut b = base.clone();
            patch_field(&mut b, c, idx, val);
            let want = val <= 2 * S::ETA as u32;
            let r = guarded(|| S::sk_from(&b).map(|k| S::sk_bytes(&k)));
            let (got, rt_ok) = match &r { Ok(Ok(b2)) => (true, *b2 == b), Ok(Err(_)) => (false, true), Err(_) => (true, false) };
            cases += 1;
            let bad = got != want || !rt_ok;
            if bad { fails += 1; }
            // keep every failure (up to a cap) and a random sample for TLC
            if (bad && keep.len() < 40) || p.below((nfields as u64 * (1 << c)) / 40 + 1) == 0 {
                let what = format!("field {} (vector {}, poly {}, coeff {}) = {}{}", idx, if idx / 256 < S::L { "s1" } else { "s2" }, idx / 256, idx % 256, val,
                                   match &r { Err((loc, msg)) => format!(" | PANIC {}: {}", loc, msg), Ok(Ok(b2)) if *b2 != b => " | re-serialisation differs".into(), _ => "".into() });
                keep.push((what, b, got));
            }
        }
    }
    out.ev(json!({"ev": "Sweep", "set": S::SET, "what": format!("try_from_bytes accepts iff field <= 2*eta, and accepted keys re-serialise identically: every one of {} fields x every one of {} values", nfields, 1 << c),
                  "cases": cases, "failures": fails}));
    // multi-field patches
    for t in 0..(if thorough { 400 } else { 40 }) {
        let mut b = if t % 5 == 0 { p.bytes(S::SK_LEN) } else { base.clone() };
        for _ in 0..(1 + t % 6) { let idx = p.below(nfields as u64) as usize; let val = if t % 2 == 0 { p.below(1 << c) as u32 } else { p.below(2 * S::ETA as u64 + 1) as u32 }; patch_field(&mut b, c, idx, val); }
        let r = guarded(|| S::sk_from(&b).is_ok());
        match r { Ok(ok) => keep.push((format!("multi-field patch {}", t), b, ok)), Err((loc, msg)) => out.ev(json!({"ev": "Panic", "set": S::SET, "what": format!("sk try_from_bytes | {}: {}", loc, msg)})) }
    }
    // exactly two, three and four out-of-range fields inside ONE polynomial (a test that folds the per-coefficient results
    // wrongly - parity, last-one-wins - passes every single-field case)
    for t in 0..(if thorough { 60 } else { 12 }) {
        let poly = p.below((S::L + S::K) as u64) as usize;
        let nbad = 2 + t % 3;
        let mut b = base.clone();
        let mut used: Vec<usize> = vec![];
        while used.len() < nbad { let c0 = p.below(256) as usize; if !used.contains(&c0) { used.push(c0); patch_field(&mut b, c, poly * 256 + c0, 2 * S::ETA as u32 + 1 + p.below((1 << c) - 2 * S::ETA as u64 - 1) as u32); } }
        let r = guarded(|| S::sk_from(&b).is_ok());
        match r { Ok(ok) => keep.push((format!("{} out-of-range fields in polynomial {}", nbad, poly), b, ok)), Err((loc, msg)) => out.ev(json!({"ev": "Panic", "set": S::SET, "what": format!("sk try_from_bytes | {}: {}", loc, msg)})) }
    }
    // extremal keys: every coefficient at -eta / +eta / alternating; t0 section all 00 / all FF
    for (name, val) in [("all fields 0 (= +eta)", 0u32), ("all fields 2*eta (= -eta)", 2 * S::ETA as u32), ("all fields 2*eta+1", 2 * S::ETA as u32 + 1), ("all fields max", (1 << c) - 1)] {
        let mut b = base.clone(); for idx in 0..nfields { patch_field(&mut b, c, idx, val); }
        let r = guarded(|| S::sk_from(&b).is_ok()); if let Ok(ok) = r { keep.push((name.into(), b, ok)); }
    }
    let t0_start = 128 + nfields * c / 8;
    for (name, fill) in [("t0 section all 00", 0u8), ("t0 section all FF", 0xffu8)] { let mut b = base.clone(); for x in b[t0_start..].iter_mut() { *x = fill; } let ok = S::sk_from(&b).is_ok(); keep.push((name.into(), b, ok)); }
    for (what, b, ok) in keep {
        out.ev(json!({"ev": "SkAccept", "set": S::SET, "what": what, "sk": jbytes(&b), "ok": ok}));
    }
    // full decode of a few accepted keys
    for t in 0..2 {
        let b = if t == 0 { base.clone() } else { let mut b = base.clone(); for idx in 0..nfields { patch_field(&mut b, c, idx, (idx % (2 * S::ETA as usize + 1)) as u32); } b };
        let r = S::sk_decode(&b);
        out.ev(json!({"ev": "SkDecode", "set": S::SET, "sk": jbytes(&b), "ok": r.is_some(),
                      "s1": r.as_ref().map(|x| jv(&x.0)).unwrap_or(json!([])), "s2": r.as_ref().map(|x| jv(&x.1)).unwrap_or(json!([])), "t0": r.as_ref().map(|x| jv(&x.2)).unwrap_or(json!([]))}));
    }
}

pub fn run(sub: &str, a: &Args) {
    let seed = a.u("seed", 1);
    let thorough = a.u("thorough", 0) == 1;
    let dir = a.s("out", "/verif/work/codec");
    if sub == "codec" {
        let mut out = Out::create(&format!("{}/codec_generic.ndjson", dir));
        generic(seed, thorough, &mut out);
        println!("codec generic events={}", out.finish());
    }
    for set in a.sets() {
        let mut out = Out::create(&format!("{}/{}_{}.ndjson", dir, sub, set));
        if sub == "codec" { for_set!(set, per_set(seed, thorough, &mut out)) } else { for_set!(set, skfields(seed, thorough, &mut out)) }
        println!("{} set={} events={}", sub, set, out.finish());
    }
}
