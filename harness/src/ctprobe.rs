// C14 probe: runs the library's constant-time test entry point, or one secret-handling kernel, on
// input bytes read from a FILE (so argv and environment are identical across runs and no
// data-dependent parsing happens in the probe itself).  Prints nothing that depends on the data.
//   ctprobe dudect <set> <file with 64 RNG bytes>
//   ctprobe kernel <name> <file with 1024 bytes = 256 little-endian i32>
//   ctprobe mask <18|20> <file with 64 bytes of rho''>
#![allow(deprecated)]
use fips204::verif_hooks as vh;
use rand_core::{CryptoRng, Error, RngCore};
use std::hint::black_box;

struct FileRng { data: Vec<u8>, pos: usize }
impl RngCore for FileRng {
    fn next_u32(&mut self) -> u32 { unimplemented!() }
    fn next_u64(&mut self) -> u64 { unimplemented!() }
    fn fill_bytes(&mut self, _d: &mut [u8]) { unimplemented!() }
    fn try_fill_bytes(&mut self, dest: &mut [u8]) -> Result<(), Error> {
        let n = dest.len();
        dest.copy_from_slice(&self.data[self.pos..self.pos + n]);
        self.pos += n;
        Ok(())
    }
}
impl CryptoRng for FileRng {}

const Q: i32 = 8_380_417;
// Region markers for the trace reducer: `n` consecutive 8-byte volatile stores to one static.
// 3 stores open the observed region, 5 stores close it (process start-up and exit are not the
// library's code and contain loader noise that differs between identical runs).
static mut MARK: u64 = 0;
#[inline(never)]
fn mark(n: usize) { for i in 0..n { unsafe { std::ptr::write_volatile(std::ptr::addr_of_mut!(MARK), i as u64) } } }
fn main() {
    let a: Vec<String> = std::env::args().collect();
    let data = std::fs::read(&a[3]).expect("input file");
    mark(3);
    run(&a, data);
    mark(5);
}
fn run(a: &[String], data: Vec<u8>) {
    match a[1].as_str() {
        "dudect" => {
            let mut rng = FileRng { data, pos: 0 };
            let msg = [0u8, 1, 2, 3, 4, 5, 6, 7];
            match a[2].as_str() {
                "44" => { black_box(fips204::ml_dsa_44::dudect_keygen_sign_with_rng(&mut rng, &msg).unwrap()); }
                "65" => { black_box(fips204::ml_dsa_65::dudect_keygen_sign_with_rng(&mut rng, &msg).unwrap()); }
                _ => { black_box(fips204::ml_dsa_87::dudect_keygen_sign_with_rng(&mut rng, &msg).unwrap()); }
            }
        }
        "mask" => {
            // ExpandMask alone: 64 bytes of rho'' (secret) from the file, counter 0
            let rho: [u8; 64] = data[..64].try_into().unwrap();
            match a[2].as_str() {
                "18" => { black_box(vh::expand_mask::<4>(1 << 17, &rho, 0)); }
                _ => { black_box(vh::expand_mask::<5>(1 << 19, &rho, 0)); black_box(vh::expand_mask::<7>(1 << 19, &rho, 0)); }
            }
        }
        "kernel" => {
            // 256 coefficients; each kernel maps them into its documented input range WITHOUT branching on them
            let raw: [i32; 256] = core::array::from_fn(|i| i32::from_le_bytes(data[4 * i..4 * i + 4].try_into().unwrap()));
            // branch-free maps (masks, no comparisons that could compile to jumps): 0 stays 0, -1 stays -1, ...
            let modq: [i32; 256] = core::array::from_fn(|i| { let r = raw[i] % Q; r + ((r >> 31) & Q) });      // [0, q)
            let cent: [i32; 256] = core::array::from_fn(|i| modq[i] - (((Q / 2 - modq[i]) >> 31) & Q));        // (-q/2, q/2]
            let g1 = 1 << 19;
            let small: [i32; 256] = core::array::from_fn(|i| (raw[i] & (2 * g1 - 1)) - g1 + 1); // [-gamma1+1, gamma1]
            let eta: [i32; 256] = core::array::from_fn(|i| (raw[i] & 3) - 2 + ((raw[i] >> 2) & 1)); // [-2, 2]
            for g2 in [95232i32, 261888] {
                match a[2].as_str() {
                    "infinity_norm" => { black_box(vh::infinity_norm::<1>(&[cent])); }
                    "center_mod" => { for x in modq { black_box(vh::center_mod(x)); } }
                    "decompose" => { for x in modq { black_box(vh::decompose(g2, x)); black_box(vh::high_bits(g2, x)); black_box(vh::low_bits(g2, x)); } }
                    "make_hint" => { for i in 0..256 { black_box(vh::make_hint(g2, Q - cent[i], cent[255 - i])); } }
                    "power2round" => { black_box(vh::power2round(&modq)); }
                    "bit_pack" => { let mut o = [0u8; 640]; vh::bit_pack(&small, g1 - 1, g1, &mut o); black_box(o);
                                    let mut o2 = [0u8; 96]; vh::bit_pack(&eta, 2, 2, &mut o2); black_box(o2); }
                    "ntt" => { black_box(vh::ntt::<1>(&[small])); black_box(vh::ntt::<1>(&[eta])); }
                    "inv_ntt" => { black_box(vh::inv_ntt::<1>(&[cent])); }
                    "mat_vec_mul" => { black_box(vh::mat_vec_mul::<1, 1>(&[[modq]], &[cent])); }
                    "to_mont" => { black_box(vh::to_mont::<1>(&[cent])); }
                    // range checks are constant-time on SUCCESS (every coefficient in range)
                    "is_in_range" => { black_box(vh::is_in_range(&eta, 2, 2)); black_box(vh::is_in_range(&small, g1 - 1, g1)); black_box(vh::is_in_range(&cent, Q / 2, Q / 2)); }
                    "half_byte" => { for x in raw { black_box(vh::coeff_from_half_byte::<true>(2, (x & 15) as u8)); black_box(vh::coeff_from_half_byte::<true>(4, ((x >> 4) & 15) as u8)); } }
                    "reductions" => { for x in cent { black_box(vh::mont_reduce(i64::from(x) * i64::from(modq[7]))); black_box(vh::partial_reduce32(x)); black_box(vh::full_reduce32(x)); } }
                    other => panic!("unknown kernel {}", other),
                }
            }
        }
        _ => panic!("usage"),
    }
}
