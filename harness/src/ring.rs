// C18: transform / multiply-accumulate / inverse-transform evaluations for TLC (TraceRing.tla), and
// the per-stage magnitudes reported by the instrumented library (mechanism M4).
use crate::api::*;
use crate::fcases::{forge, format_msg, msg_of};
use crate::for_set;
use crate::util::*;
use fips204::verif_hooks as vh;
use serde_json::{json, Value};

const Q: i32 = 8_380_417;
fn jp(p: &Poly) -> Value { Value::Array(p.iter().map(|&x| json!(x)).collect()) }
fn jv(v: &[Poly]) -> Value { Value::Array(v.iter().map(jp).collect()) }

fn mags(evs: &[vh::Event]) -> Value {
    Value::Array(evs.iter().filter(|e| e.0 != "sign_attempt").map(|e| json!([e.0, e.1[0], e.1[1], e.1[2], e.1[3]])).collect())
}
/// run f under the event sink; a panic becomes a Panic event
fn traced<T>(out: &mut Out, call: &str, set: u32, what: &str, f: impl FnOnce() -> T) -> Option<T> {
    vh::trace_start();
    let r = guarded(f);
    let evs = vh::trace_take();
    match r {
        Ok(v) => { out.ev(json!({"ev": "Mag", "call": call, "set": set, "what": what, "events": mags(&evs)})); Some(v) }
        Err((loc, msg)) => { out.ev(json!({"ev": "Panic", "call": call, "set": set, "what": format!("{} | {}: {}", what, loc, msg), "loc": loc, "msg": msg})); None }
    }
}
fn ev_ntt(out: &mut Out, what: &str, p: &Poly) {
    match guarded(|| vh::ntt::<1>(&[*p])[0]) {
        Ok(o) => out.ev(json!({"ev": "Ntt", "what": what, "in": jp(p), "out": jp(&o)})),
        Err((loc, msg)) => out.ev(json!({"ev": "Panic", "call": "ntt", "what": format!("{} | {}: {}", what, loc, msg), "loc": loc, "msg": msg})),
    }
}
fn ev_inv(out: &mut Out, what: &str, p: &Poly) {
    match guarded(|| vh::inv_ntt::<1>(&[*p])[0]) {
        Ok(o) => out.ev(json!({"ev": "InvNtt", "what": what, "in": jp(p), "out": jp(&o)})),
        Err((loc, msg)) => out.ev(json!({"ev": "Panic", "call": "inv_ntt", "what": format!("{} | {}: {}", what, loc, msg), "loc": loc, "msg": msg})),
    }
}
/// the library's product pipeline for two polynomials: NTT^-1( NTT(a) o to_mont(NTT(b)) )
fn ev_product(out: &mut Out, what: &str, a: &Poly, b: &Poly) {
    let r = guarded(|| {
        let ah = vh::ntt::<1>(&[*a])[0];
        let bm = vh::to_mont::<1>(&vh::ntt::<1>(&[*b]))[0];
        let prod: Poly = core::array::from_fn(|n| vh::mont_reduce(i64::from(ah[n]) * i64::from(bm[n])));
        vh::inv_ntt::<1>(&[prod])[0]
    });
    match r {
        Ok(o) => out.ev(json!({"ev": "Product", "what": what, "a": jp(a), "b": jp(b), "out": jp(&o)})),
        Err((loc, msg)) => out.ev(json!({"ev": "Panic", "call": "product", "what": format!("{} | {}: {}", what, loc, msg), "loc": loc, "msg": msg})),
    }
}
fn rand_poly(p: &mut Prng, lo: i32, hi: i32) -> Poly { core::array::from_fn(|_| p.range(lo as i64, hi as i64) as i32) }
fn sparse_c(p: &mut Prng, tau: usize) -> Poly { let mut c = [0i32; 256]; let mut k = 0; while k < tau { let i = p.below(256) as usize; if c[i] == 0 { c[i] = if p.below(2) == 0 { 1 } else { -1 }; k += 1; } } c }

pub fn generic(seed: u64, thorough: bool, out: &mut Out) {
    let mut p = Prng::new(seed, 0x1800);
    out.ev(json!({"ev": "Zeta", "table": jp(&vh::zeta_table_mont())}));
    // all 256 basis polynomials (scalar 1), and the call-site scalars on a rotating subset
    let scalars = [1i32, -1, 2, 4, 1 << 12, 1023, 1 << 17, 1 << 19, Q - 1];
    for i in 0..256usize {
        let mut e = [0i32; 256]; e[i] = 1;
        ev_ntt(out, &format!("basis e_{}", i), &e);
        let ks: Vec<usize> = if thorough { (1..scalars.len()).collect() } else { vec![1 + (i + seed as usize) % (scalars.len() - 1)] };
        if thorough || i % 8 == (seed as usize) % 8 { for k in ks { let mut s = [0i32; 256]; s[i] = scalars[k]; ev_ntt(out, &format!("{} * e_{}", scalars[k], i), &s); } }
    }
    // extremal sign patterns per call-site range
    let ranges: [(&str, i32, i32); 6] = [("eta=2", -2, 2), ("eta=4", -4, 4), ("t0", -(1 << 12) + 1, 1 << 12), ("t1", 0, 1023), ("gamma1=2^17", -(1 << 17) + 1, 1 << 17), ("gamma1=2^19", -(1 << 19) + 1, 1 << 19)];
    for (name, lo, hi) in ranges {
        ev_ntt(out, &format!("{}: all at upper end", name), &[hi; 256]);
        ev_ntt(out, &format!("{}: all at lower end", name), &[lo; 256]);
        ev_ntt(out, &format!("{}: alternating", name), &core::array::from_fn(|n| if n % 2 == 0 { hi } else { lo }));
        ev_ntt(out, &format!("{}: halves", name), &core::array::from_fn(|n| if n < 128 { hi } else { lo }));
        for _ in 0..(if thorough { 6 } else { 1 }) { let r = rand_poly(&mut p, lo, hi); ev_ntt(out, &format!("{}: random", name), &r); }
    }
    // inverse transform on the shapes its callers supply: canonical T_q elements, single Montgomery
    // products (|x| < q) and unreduced sums of up to l + 1 = 8 of them
    for i in (0..256usize).step_by(if thorough { 1 } else { 16 }) { let mut e = [0i32; 256]; e[i] = 1; ev_inv(out, &format!("basis e_{}", i), &e); }
    ev_inv(out, "all q-1", &[Q - 1; 256]);
    ev_inv(out, "all -(q-1)", &[-(Q - 1); 256]);
    for terms in [1i32, 5, 8] {
        ev_inv(out, &format!("all +{}(q-1)", terms), &[terms * (Q - 1); 256]);
        ev_inv(out, &format!("alternating +-{}(q-1)", terms), &core::array::from_fn(|n| if n % 2 == 0 { terms * (Q - 1) } else { -terms * (Q - 1) }));
        for _ in 0..(if thorough { 4 } else { 1 }) { let r = rand_poly(&mut p, -terms * (Q - 1), terms * (Q - 1)); ev_inv(out, &format!("random within {} products", terms), &r); }
    }
    // witness search for the copy-in of the inverse transform: uniform and alternating vectors at values just
    // around multiples of 2^23 and of q, inside the range its callers supply (at most l + 1 = 8 accumulated
    // products, |x| <= 8(q-1)).  After 8 doubling layers slot 0 holds 256 x (reduced value), so ANY copy-in
    // reduction that can leave |value| >= 2^23 overflows on one of these.  Only panics and a sample are recorded.
    let lim = 8 * (Q as i64 - 1);
    let mut grid: Vec<i64> = vec![];
    for k in -9i64..=9 { for d in [0i64, 1, 2, 4095, 4096, 8190, 8191, 8192, 16383, 16384, 16385] { for base in [k << 23, k * Q as i64] { grid.push(base - d); grid.push(base + d); } } }
    grid.retain(|v| v.abs() <= lim);
    grid.sort(); grid.dedup();
    let mut nprobe = 0usize;
    for (gi, v) in grid.iter().enumerate() {
        let v = *v as i32;
        for (pi, pat) in [[v; 256], core::array::from_fn(|n| if n % 2 == 0 { v } else { -v })].iter().enumerate() {
            nprobe += 1;
            match guarded(|| vh::inv_ntt::<1>(&[*pat])[0]) {
                Ok(o) => { if (gi * 2 + pi) % 97 == (seed as usize) % 97 { out.ev(json!({"ev": "InvNtt", "what": format!("copy-in probe, all slots {}{}", if pi == 1 { "+-" } else { "" }, v), "in": jp(pat), "out": jp(&o)})); } }
                Err((loc, msg)) => out.ev(json!({"ev": "Panic", "call": "inv_ntt", "what": format!("copy-in probe: all slots {}{} (within 8 accumulated products) | {}: {}", if pi == 1 { "+-" } else { "" }, v, loc, msg), "loc": loc, "msg": msg})),
            }
        }
    }
    out.ev(json!({"ev": "Zeta", "table": jp(&vh::zeta_table_mont()), "probes": nprobe}));
    // envelope witness for the FORWARD transform: a polynomial whose lazy (unreduced) output coefficient 0 is as
    // large as the bounds model allows: w[0] = gamma1 and, for every layer, the one coefficient that feeds slot 0
    // chosen so that its Montgomery product with that layer's zeta is maximal.  It drives to_mont to the edge of
    // its documented input range (|x| < 67058539), which in-range random data never approaches.
    let zt = vh::zeta_table_mont();
    for g1 in [1i32 << 17, 1 << 19] {
        for sign in [1i32, -1] {
            let mut w = [0i32; 256];
            w[0] = sign * g1;
            let (mut m, mut len) = (0usize, 128usize);
            while len >= 1 {
                m = 2 * m + 1 - if m == 0 { 0 } else { 0 };           // zeta index of the block that contains slot 0 at this layer
                let midx = 256 / (2 * len);                            // = 1, 2, 4, ... (first block of the layer)
                let zeta = i64::from(zt[midx]);
                let mut best = (0i32, 0i32);
                let mut v = -g1 + 1;
                while v <= g1 { let t = vh::mont_reduce(zeta * i64::from(v)); if sign * t > best.0 { best = (sign * t, v); } v += 1; }
                w[len] = best.1;
                let _ = m;
                len >>= 1;
            }
            ev_ntt(out, &format!("envelope witness gamma1={} sign={}", g1, sign), &w);
            let a = rand_poly(&mut p, 0, Q - 1);
            ev_product(out, &format!("full-range a x forward-envelope witness (gamma1={}, sign={})", g1, sign), &a, &w);
        }
    }
    // full products against the schoolbook definition: challenge-like x secret/public ranges
    let nprod = if thorough { 6 } else { 1 };
    for (name, lo, hi) in ranges {
        for k in 0..nprod {
            let c = sparse_c(&mut p, [39usize, 49, 60][k % 3]);
            let b = if k % 2 == 0 { rand_poly(&mut p, lo, hi) } else { [if k % 4 == 1 { hi } else { lo }; 256] };
            ev_product(out, &format!("tau-sparse c x {}", name), &c, &b);
        }
    }
    let a = rand_poly(&mut p, 0, Q - 1);
    ev_product(out, "full-range a x gamma1-range z", &a, &rand_poly(&mut p, -(1 << 19) + 1, 1 << 19));
    ev_product(out, "full-range a x all gamma1", &a, &[1 << 19; 256]);
}

pub fn per_set<S: MlDsa>(seed: u64, thorough: bool, out: &mut Out) {
    let mut p = Prng::new(seed, 0x1810 + S::SET as u64);
    // matrix-vector products with the real A = ExpandA(rho)
    for k in 0..(if thorough { 4 } else { 1 }) {
        let rho = p.arr32();
        let z: Vec<Poly> = (0..S::L).map(|_| if k % 2 == 0 { rand_poly(&mut p, -S::GAMMA1 + 1, S::GAMMA1) } else { [S::GAMMA1; 256] }).collect();
        let r = guarded(|| { let a = S::expand_a(&rho); let u = S::ntt_l(&z); let o = S::mat_vec_mul(&a, &u); (u, o) });
        match r {
            Ok((u, o)) => out.ev(json!({"ev": "MatVec", "set": S::SET, "rho": jbytes(&rho), "u": jv(&u), "out": jv(&o)})),
            Err((loc, msg)) => out.ev(json!({"ev": "Panic", "call": "mat_vec_mul", "set": S::SET, "what": format!("{}: {}", loc, msg), "loc": loc, "msg": msg})),
        }
    }
    // structured sparsity: vectors with all-zero polynomials in chosen positions (a product routine that special-cases
    // zero columns -- skipping, stopping, or reordering -- is wrong exactly on these); every single zero position, and
    // "only the first" / "only the last" polynomial non-zero
    {
        let rho = p.arr32();
        let mut pats: Vec<Vec<bool>> = vec![];                 // true = polynomial j is zero
        let singles: Vec<usize> = if thorough { (0..S::L).collect() } else { vec![0, S::L - 2] };
        for j in singles { pats.push((0..S::L).map(|x| x == j).collect()); }
        pats.push((0..S::L).map(|x| x != S::L - 1).collect());
        pats.push((0..S::L).map(|x| x != 0).collect());
        if thorough { for m in 1..(1u32 << S::L) - 1 { if m % 5 == 3 { pats.push((0..S::L).map(|x| (m >> x) & 1 == 1).collect()); } } }
        for pat in pats {
            let z: Vec<Poly> = pat.iter().map(|&zero| if zero { [0i32; 256] } else { rand_poly(&mut p, -S::GAMMA1 + 1, S::GAMMA1) }).collect();
            let r = guarded(|| { let a = S::expand_a(&rho); let u = S::ntt_l(&z); let o = S::mat_vec_mul(&a, &u); (u, o) });
            match r {
                Ok((u, o)) => out.ev(json!({"ev": "MatVec", "set": S::SET, "rho": jbytes(&rho), "u": jv(&u), "out": jv(&o),
                                           "what": format!("zero polynomials at {:?}", pat.iter().enumerate().filter(|(_, z)| **z).map(|(j, _)| j).collect::<Vec<_>>())})),
                Err((loc, msg)) => out.ev(json!({"ev": "Panic", "call": "mat_vec_mul", "set": S::SET, "what": format!("{}: {}", loc, msg), "loc": loc, "msg": msg})),
            }
        }
    }
    // magnitudes of every pipeline stage during real calls
    let xi = p.arr32();
    let keys = traced(out, "keygen", S::SET, "keygen_from_seed", || S::keygen_seed(&xi));
    let Some((pk, sk)) = keys else { return };
    for i in 0..(if thorough { 24 } else { 4 }) {
        let m = msg_of(&mut p, i);
        let rnd = p.arr32();
        let sig = traced(out, "sign", S::SET, "try_sign_with_rng", || S::sign(&sk, &mut ScriptRng::new(&rnd), &m, b"", "pure").unwrap());
        if let Some(sig) = sig { let _ = traced(out, "verify", S::SET, "verify honest", || S::verify(&pk, &m, &sig, b"", "pure")); }
    }
    let skb = S::sk_bytes(&sk);
    let _ = traced(out, "deserialise", S::SET, "sk try_from_bytes + into_bytes + get_public_key", || { let k = S::sk_from(&skb).unwrap(); let _ = S::sk_bytes(&k); S::pk_bytes(&S::derive(&k)) });
    let pkb = S::pk_bytes(&pk);
    let _ = traced(out, "deserialise", S::SET, "pk try_from_bytes + into_bytes", || { let k = S::pk_from(&pkb).unwrap(); S::pk_bytes(&k) });
    // adversarial response vectors under a t1 = 0 key: all-maximal, alternating, sparse-coset (DESIGN 5 F2)
    let edge = S::GAMMA1 - S::beta() - 1;
    let h0: Vec<Poly> = vec![[0i32; 256]; S::K];
    let mut zs: Vec<(String, Vec<Poly>)> = vec![
        ("z all +max".into(), vec![[edge; 256]; S::L]),
        ("z all -max".into(), vec![[-edge; 256]; S::L]),
        ("z alternating".into(), vec![core::array::from_fn(|n| if n % 2 == 0 { edge } else { -edge }); S::L]),
    ];
    for k in 0..(if thorough { 12 } else { 2 }) { zs.push((format!("z random extremal signs {}", k), (0..S::L).map(|_| core::array::from_fn(|_| if p.below(2) == 0 { edge } else { -edge })).collect())); }
    if S::SET == 87 {
        let w1: [[i32; 4]; 7] = [[275033, 332676, -481626, 317000], [383811, -268708, 283131, 65421], [-209744, -399416, -236512, 227585],
            [163466, 45434, -328266, -153360], [445643, 455576, -439727, 402819], [-176246, -373103, -172428, -296322], [-209730, 255762, -124882, -306448]];
        let w2: [[i32; 4]; 7] = [[275033, 332676, -481626, 317000], [-493341, -472940, 56262, 92665], [147053, -241238, -269924, 480673],
            [-406821, -337689, 293037, -77000], [206793, 408304, -461119, 368242], [482199, 414728, 69784, -457438], [259537, -207131, -186434, -488483]];
        for (wi, w) in [w1, w2].iter().enumerate() {
            zs.push((format!("sparse-coset witness {} (rho = 07^32)", wi + 1), (0..7).map(|j| { let mut a = [0i32; 256]; for c in 0..4 { a[64 * c] = w[j][c]; } a }).collect()));
        }
    }
    for (name, z) in zs {
        let rho = if name.starts_with("sparse") { [7u8; 32] } else { p.arr32() };
        let m = [1u8, 2, 3];
        let f = forge::<S>(&rho, &z, &h0, &format_msg("pure", &[], &m));
        let pkf = S::pk_from(&f.pk).unwrap();
        let _ = traced(out, "verify", S::SET, &format!("verify forged (t1 = 0): {}", name), || S::verify(&pkf, &m, &f.sig, &[], "pure"));
    }
}

pub fn run(a: &Args) {
    let seed = a.u("seed", 1);
    let thorough = a.u("thorough", 0) == 1;
    let dir = a.s("out", "/verif/work/ring");
    let mut out = Out::create(&format!("{}/ring_generic.ndjson", dir));
    generic(seed, thorough, &mut out);
    println!("ring generic events={}", out.finish());
    for set in a.sets() {
        let mut out = Out::create(&format!("{}/ring_{}.ndjson", dir, set));
        for_set!(set, per_set(seed, thorough, &mut out));
        println!("ring set={} events={}", set, out.finish());
    }
}
