// C13: hostile inputs through the whole public API in a build with the library's internal
// self-checks (debug assertions) and integer-overflow checks on.  Every call is wrapped in
// catch_unwind; the API model has no panicking action, so a recorded panic never matches.
use crate::api::*;
use crate::codec_patch_field;
use crate::fcases::{forge, format_msg, hint_count_lattice, hint_mutants};
use crate::for_set;
use crate::util::*;
use serde_json::{json, Value};
use std::collections::BTreeMap;

struct Tally { map: BTreeMap<(String, String), (u64, Vec<Value>)> }
impl Tally {
    fn call<T>(&mut self, op: &str, class: &str, input: impl FnOnce() -> Value, f: impl FnOnce() -> T) -> Option<T> {
        let e = self.map.entry((op.to_string(), class.to_string())).or_insert((0, vec![]));
        e.0 += 1;
        match guarded(f) {
            Ok(v) => Some(v),
            Err((loc, msg)) => { if e.1.len() < 3 { e.1.push(json!({"loc": loc, "msg": msg, "input": input()})); } None }
        }
    }
}

fn hostile<S: MlDsa>(seed: u64, scale: usize, out: &mut Out) {
    let mut p = Prng::new(seed, 0x1300 + S::SET as u64);
    let mut t = Tally { map: BTreeMap::new() };
    let (pk, sk) = S::keygen_seed(&p.arr32());
    let (pkb, skb) = (S::pk_bytes(&pk), S::sk_bytes(&sk));
    let sig0 = S::sign(&sk, &mut ScriptRng::new(&p.arr32()), b"m", b"", "pure").unwrap();
    let hx = |b: &[u8]| json!(hexs(b));

    // --- verification with arbitrary public keys, signatures, messages and contexts
    for i in 0..(40 * scale) {
        let pkx = match i % 5 { 0 => pkb.clone(), 1 => vec![0u8; S::PK_LEN], 2 => vec![0xffu8; S::PK_LEN], _ => p.bytes(S::PK_LEN) };
        let sigx = match i % 7 { 0 => vec![0u8; S::SIG_LEN], 1 => vec![0xffu8; S::SIG_LEN], 2 => { let mut s = sig0.clone(); let n = S::SIG_LEN - S::OMEGA as usize - S::K; for b in s[32..n].iter_mut() { *b = p.below(256) as u8; } s }
                                   3 => { let mut s = sig0.clone(); let n = S::SIG_LEN - S::OMEGA as usize - S::K; for b in s[n..].iter_mut() { *b = p.below(256) as u8; } s }
                                   4 => { let mut s = sig0.clone(); let k = p.below(S::SIG_LEN as u64) as usize; s[k] ^= 1 << p.below(8); s }, _ => p.bytes(S::SIG_LEN) };
        let m = p.bytes([0usize, 1, 200, 5000][i % 4]);
        let ctx = p.bytes([0usize, 255, 256, 1000][(i / 4) % 4]);
        let mode = MODES[i % 4];
        let (a, b, c, d) = (pkx.clone(), sigx.clone(), m.clone(), ctx.clone());
        t.call("verify", "arbitrary pk/sig/message/context bytes", || json!({"pk": hx(&a), "sig": hx(&b), "m": hx(&c), "ctx": hx(&d), "mode": mode}),
               || { let k = S::pk_from(&pkx).expect("every pk-length string deserialises"); let r = S::verify(&k, &m, &sigx, &ctx, mode); let _ = S::internal_verify(&k, &m, &sigx); let _ = S::pk_bytes(&k); r });
    }
    // a signature that DECODES, under contexts around the 255-byte limit, every mode
    for n in [254usize, 255, 256, 257, 511, 512, 513] {
        let ctx = p.bytes(n);
        for mode in MODES {
            let c2 = ctx.clone();
            t.call("verify", "valid signature, context length around the limit", || json!({"ctxlen": n, "mode": mode}), || S::verify(&pk, b"m", &sig0, &c2, mode));
            let c3 = ctx.clone();
            t.call("sign+verify", "context length around the limit", || json!({"ctxlen": n, "mode": mode}), || S::sign(&sk, &mut ScriptRng::new(&[7u8; 32]), b"m", &c3, mode).is_ok());
        }
    }
    for (name, s2) in hint_mutants::<S>(&sig0, &mut p) {
        let s3 = s2.clone();
        t.call("verify", "hint-section malformations", || json!({"pk": hx(&pkb), "sig": hx(&s3), "what": name}), || S::verify(&pk, b"m", &s2, b"", "pure"));
    }
    {
        let hs = S::SIG_LEN - S::OMEGA as usize - S::K;
        for (name, y) in hint_count_lattice::<S>(2) {
            let mut s2 = sig0.clone(); s2[hs..].copy_from_slice(&y);
            let s3 = s2.clone();
            t.call("verify", "hint-section count lattice", || json!({"pk": hx(&pkb), "sig": hx(&s3), "what": name}), || S::verify(&pk, b"m", &s2, b"", "pure"));
        }
    }
    // big messages / contexts
    for n in [65536usize, 1 << 20] {
        let big = p.bytes(n);
        for mode in MODES {
            t.call("sign+verify", "1 MiB-class message", || json!({"len": n, "mode": mode}), || { let s = S::sign(&sk, &mut ScriptRng::new(&[7u8; 32]), &big, b"c", mode).unwrap(); S::verify(&pk, &big, &s, b"c", mode) });
            t.call("sign+verify", "1 MiB-class context", || json!({"len": n, "mode": mode}), || { let r = S::sign(&sk, &mut ScriptRng::new(&[7u8; 32]), b"m", &big, mode); S::verify(&pk, b"m", &sig0, &big, mode) || r.is_ok() });
        }
    }
    // adversarial response vectors under t1 = 0 keys (C18's stress vectors, here for the panic observation)
    let edge = S::GAMMA1 - S::beta() - 1;
    let h0: Vec<Poly> = vec![[0i32; 256]; S::K];
    let mut zs: Vec<Vec<Poly>> = vec![vec![[edge; 256]; S::L], vec![[-edge; 256]; S::L], vec![[S::GAMMA1; 256]; S::L], vec![[-S::GAMMA1 + 1; 256]; S::L]];
    for _ in 0..(4 * scale) { zs.push((0..S::L).map(|_| core::array::from_fn(|_| if p.below(2) == 0 { edge } else { -edge })).collect()); }
    if S::SET == 87 {
        let w1: [[i32; 4]; 7] = [[275033, 332676, -481626, 317000], [383811, -268708, 283131, 65421], [-209744, -399416, -236512, 227585],
            [163466, 45434, -328266, -153360], [445643, 455576, -439727, 402819], [-176246, -373103, -172428, -296322], [-209730, 255762, -124882, -306448]];
        zs.push((0..7).map(|j| { let mut a = [0i32; 256]; for c in 0..4 { a[64 * c] = w1[j][c]; } a }).collect());
    }
    for (zi, z) in zs.iter().enumerate() {
        let rho = if S::SET == 87 && zi + 1 == zs.len() { [7u8; 32] } else { p.arr32() };
        let m = [1u8, 2, 3];
        let r = guarded(|| forge::<S>(&rho, z, &h0, &format_msg("pure", &[], &m)));
        if let Ok(f) = r {
            let (a, b) = (f.pk.clone(), f.sig.clone());
            t.call("verify", "adversarial response vector under a t1 = 0 key", || json!({"pk": hx(&a), "sig": hx(&b), "m": "010203"}), || { let k = S::pk_from(&f.pk).unwrap(); S::verify(&k, &m, &f.sig, &[], "pure") });
        }
    }
    // --- private keys: every class of ACCEPTED string, then everything one can do with the key
    let c = fips204::verif_hooks::bit_length(2 * S::ETA);
    let nfields = (S::L + S::K) * 256;
    let t0_start = 128 + nfields * c / 8;
    let mut sks: Vec<(String, Vec<u8>)> = vec![("generated".into(), skb.clone())];
    for (name, val) in [("all s fields = +eta", 0u32), ("all s fields = -eta", 2 * S::ETA as u32)] { let mut b = skb.clone(); for i in 0..nfields { codec_patch_field(&mut b, c, i, val); } sks.push((name.into(), b)); }
    { let mut b = skb.clone(); for i in 0..nfields { codec_patch_field(&mut b, c, i, if i % 2 == 0 { 0 } else { 2 * S::ETA as u32 }); } sks.push(("s fields alternating +-eta".into(), b)); }
    for (name, fill) in [("t0 section all 00 (t0 = 2^12)", 0u8), ("t0 section all FF (t0 = -2^12+1)", 0xffu8)] { let mut b = skb.clone(); for x in b[t0_start..].iter_mut() { *x = fill; } sks.push((name.into(), b)); }
    { let mut b = skb.clone(); let k = t0_start + p.below((S::SK_LEN - t0_start) as u64) as usize; b[k] ^= 1 << p.below(8); sks.push(("one bit of t0 flipped".into(), b)); }
    { let mut b = skb.clone(); for x in b[..128].iter_mut() { *x = p.below(256) as u8; } sks.push(("rho, K, tr random".into(), b)); }
    for k in 0..(6 * scale) {
        let mut b = if k % 2 == 0 { skb.clone() } else { p.bytes(S::SK_LEN) };
        for i in 0..nfields { if k % 2 == 1 || p.below(3) == 0 { codec_patch_field(&mut b, c, i, p.below(2 * S::ETA as u64 + 1) as u32); } }
        if k % 3 == 0 { for x in b[t0_start..].iter_mut() { *x = p.below(256) as u8; } }
        sks.push((format!("random in-range s1/s2{}", if k % 2 == 1 { ", everything else random" } else { "" }), b));
    }
    for (class, b) in sks.iter() {
        let b2 = b.clone();
        let inp = move || json!({"sk": hexs(&b2)});
        let Some(key) = t.call("sk.try_from_bytes", class, inp.clone(), || S::sk_from(b)) else { continue };
        let Ok(key) = key else { continue };
        t.call("sk.into_bytes", class, inp.clone(), || S::sk_bytes(&key));
        let dpk = t.call("sk.get_public_key", class, inp.clone(), || S::derive(&key));
        for mode in MODES {
            let s = t.call("sk.try_sign", class, inp.clone(), || S::sign(&key, &mut ScriptRng::new(&[3u8; 32]), b"msg", b"ctx", mode).unwrap());
            if let (Some(s), Some(dpk)) = (s, dpk.as_ref()) { t.call("verify", &format!("under the key derived from: {}", class), inp.clone(), || S::verify(dpk, b"msg", &s, b"ctx", mode)); }
        }
        t.call("sk._internal_sign", class, inp.clone(), || S::internal_sign(&key, b"mp", [0u8; 32]));
        // keys with an extreme t0 spend many attempts in the second rejection test: sign many messages so that the
        // rare paths of the rejection loop are visited with the self-checks on
        if class.starts_with("t0 section") {
            for i in 0..(600 * scale) { let m = (i as u32).to_le_bytes(); t.call("sk._internal_sign", &format!("{} (many messages)", class), inp.clone(), || S::internal_sign(&key, &m, [0u8; 32])); }
        }
    }
    // challenge hashes chosen by the adversary: c~ is input of Verify, and SampleInBall's rejection loop can be driven through
    // long runs of rejected index bytes (found with the harness's own sampler among a few million hashes); everything else in
    // the signature is well-formed, so the verifier does reach SampleInBall and the arithmetic behind it
    {
        let nt = std::thread::available_parallelism().map(|x| x.get()).unwrap_or(8).min(12);
        let found: std::sync::Mutex<Vec<(usize, Vec<u8>)>> = std::sync::Mutex::new(vec![]);
        let base = p.next();
        std::thread::scope(|sc| { for th in 0..nt { let found = &found; sc.spawn(move || {
            let mut best: Vec<(usize, Vec<u8>)> = vec![];
            let mut i = th;
            while i < 3_000_000 * scale.min(8) {
                let mut ct = vec![0xc7u8; S::LAMBDA / 4];
                ct[..8].copy_from_slice(&base.wrapping_add(i as u64).to_le_bytes());
                let (_, _, run) = crate::refmath::sample_in_ball_run(S::TAU as usize, &ct);
                if run >= 8 { best.push((run, ct)); }
                i += nt;
            }
            found.lock().unwrap().extend(best);
        }); } });
        let mut f = found.into_inner().unwrap();
        f.sort_by(|a, b| b.0.cmp(&a.0).then(a.1.cmp(&b.1)));
        let (pk, _) = S::keygen_seed(&[0x51u8; 32]);
        for (run, ct) in f.into_iter().take(6) {
            let mut sig = vec![0u8; S::SIG_LEN];
            sig[..ct.len()].copy_from_slice(&ct);
            let s2 = sig.clone();
            t.call("verify", &format!("well-formed signature whose c~ drives SampleInBall through {} rejections in a row", run), move || json!({"sig": hexs(&s2)}), || S::verify(&pk, b"m", &sig, b"", "pure"));
        }
    }
    // arbitrary private-key strings
    for _ in 0..(20 * scale) { let b = p.bytes(S::SK_LEN); let b2 = b.clone(); t.call("sk.try_from_bytes", "random bytes", move || json!({"sk": hexs(&b2)}), || S::sk_from(&b).map(|k| S::sk_bytes(&k)).is_ok()); }
    // key generation and the constant-time test entry point
    for _ in 0..(10 * scale) { let xi = p.arr32(); t.call("keygen", "seeded + serialise + derive", || json!({"xi": hexs(&xi)}), || { let (a, b) = S::keygen_seed(&xi); (S::pk_bytes(&a), S::sk_bytes(&b), S::pk_bytes(&S::derive(&b))) }); }
    for _ in 0..(400 * scale) { let d = p.bytes(64); let d2 = d.clone(); t.call("dudect_keygen_sign_with_rng", "random RNG output", move || json!({"rng": hexs(&d2)}), || S::dudect(&mut ScriptRng::new(&d), b"ct").is_ok()); }

    for ((op, class), (count, panics)) in t.map {
        out.ev(json!({"ev": "Calls", "set": S::SET, "op": op, "class": class, "count": count, "panics": panics}));
    }
}

pub fn run(a: &Args) {
    let seed = a.u("seed", 1);
    let scale = a.u("scale", 1) as usize;
    for set in a.sets() {
        let mut out = Out::create(&format!("{}/hostile_{}.ndjson", a.s("out", "/verif/work/hostile"), set));
        for_set!(set, hostile(seed, scale, &mut out));
        println!("hostile set={} events={}", set, out.finish());
    }
}
