// The harness's own plain (non-Montgomery, i64) arithmetic in Z_q[X]/(X^256+1).  It is used only
// to CONSTRUCT inputs (forged signatures, stress vectors); every verdict on them comes from the
// TLA+ specification, so an error here costs coverage, never soundness.
pub const Q: i64 = 8_380_417;
pub type Poly = [i32; 256];

pub fn modq(x: i64) -> i64 { x.rem_euclid(Q) }
pub fn center(x: i64) -> i64 { let t = modq(x); if t > Q / 2 { t - Q } else { t } }
fn powmod(mut b: i64, mut e: u64) -> i64 { let mut r = 1i64; b = modq(b); while e > 0 { if e & 1 == 1 { r = r * b % Q; } b = b * b % Q; e >>= 1; } r }
pub fn zetas() -> [i64; 256] {
    let mut z = [0i64; 256];
    for i in 0..256u32 { z[i as usize] = powmod(1753, (i as u8).reverse_bits() as u64); }
    z
}
pub fn ntt(w: &Poly) -> [i64; 256] {
    let z = zetas();
    let mut a: [i64; 256] = core::array::from_fn(|i| modq(w[i] as i64));
    let (mut m, mut len) = (0usize, 128usize);
    while len >= 1 {
        let mut start = 0;
        while start < 256 {
            m += 1;
            for j in start..start + len {
                let t = z[m] * a[j + len] % Q;
                a[j + len] = modq(a[j] - t);
                a[j] = modq(a[j] + t);
            }
            start += 2 * len;
        }
        len >>= 1;
    }
    a
}
pub fn inv_ntt(wh: &[i64; 256]) -> [i64; 256] {
    let z = zetas();
    let mut a = *wh;
    let (mut m, mut len) = (256usize, 1usize);
    while len < 256 {
        let mut start = 0;
        while start < 256 {
            m -= 1;
            let zeta = modq(-z[m]);
            for j in start..start + len {
                let t = a[j];
                a[j] = modq(t + a[j + len]);
                a[j + len] = zeta * modq(t - a[j + len]) % Q;
            }
            start += 2 * len;
        }
        len <<= 1;
    }
    for x in a.iter_mut() { *x = *x * 8_347_681 % Q; }
    a
}
/// A (in NTT domain, k x l, entries in 0..q) times z (time domain) -> k polys in 0..q
pub fn mat_vec(a_hat: &[Vec<Poly>], z: &[Poly]) -> Vec<[i64; 256]> {
    let zh: Vec<[i64; 256]> = z.iter().map(ntt).collect();
    a_hat.iter().map(|row| {
        let mut acc = [0i64; 256];
        for (j, aj) in row.iter().enumerate() { for n in 0..256 { acc[n] = (acc[n] + modq(aj[n] as i64) * zh[j][n]) % Q; } }
        inv_ntt(&acc)
    }).collect()
}
/// schoolbook product in Z_q[X]/(X^256+1)
pub fn schoolbook(f: &Poly, g: &Poly) -> [i64; 256] {
    let mut r = [0i64; 256];
    for i in 0..256 { let fi = modq(f[i] as i64); if fi == 0 { continue; }
        for j in 0..256 { let p = fi * modq(g[j] as i64) % Q; let k = i + j;
            if k < 256 { r[k] = (r[k] + p) % Q; } else { r[k - 256] = modq(r[k - 256] - p); } } }
    r
}

// ---- the harness's own samplers (FIPS 204 Algorithms 29-31, 34), used to SEARCH for rare inputs
// (many XOF blocks consumed, many rejections) and to cross-check the library at scale; every
// disagreement, and the rarest agreeing cases, are re-judged by TLC from Sampling.tla.
use sha3::digest::{ExtendableOutput, Update, XofReader};
/// constant-time test mode variants (CTEST = true): the rejection is neutralised by masking the candidate
pub fn rej_ntt_poly_ct(seed: &[u8]) -> Poly {
    let mut h = sha3::Shake128::default(); h.update(seed); let mut x = h.finalize_xof();
    core::array::from_fn(|_| { let mut b = [0u8; 3]; x.read(&mut b); (((b[2] & 0x3f) as i32) << 16) | ((b[1] as i32) << 8) | b[0] as i32 })
}
pub fn rej_bounded_poly_ct(eta: i32, seed: &[u8]) -> Poly {
    let mut h = sha3::Shake256::default(); h.update(seed); let mut x = h.finalize_xof();
    let half = |b: u8| -> i32 { let b = (b & 7) as i32; if eta == 2 { 2 - (b % 5) } else { 4 - b } };
    let mut a = [0i32; 256];
    let mut j = 0;
    while j < 256 { let mut z = [0u8; 1]; x.read(&mut z); a[j] = half(z[0] & 15); j += 1; if j < 256 { a[j] = half(z[0] >> 4); j += 1; } }
    a
}
pub fn rej_ntt_poly(seed: &[u8]) -> (Poly, usize) {
    let mut h = sha3::Shake128::default(); h.update(seed); let mut x = h.finalize_xof();
    let (mut a, mut j, mut used) = ([0i32; 256], 0usize, 0usize);
    while j < 256 { let mut b = [0u8; 3]; x.read(&mut b); used += 3;
        let z = (((b[2] & 0x7f) as i32) << 16) | ((b[1] as i32) << 8) | b[0] as i32; if (z as i64) < Q { a[j] = z; j += 1; } }
    (a, used)
}
pub fn rej_bounded_poly(eta: i32, seed: &[u8]) -> (Poly, usize) {
    let mut h = sha3::Shake256::default(); h.update(seed); let mut x = h.finalize_xof();
    let (mut a, mut j, mut used) = ([0i32; 256], 0usize, 0usize);
    let half = |b: u8| -> Option<i32> { if eta == 2 && b < 15 { Some(2 - (b % 5) as i32) } else if eta == 4 && b < 9 { Some(4 - b as i32) } else { None } };
    while j < 256 { let mut z = [0u8; 1]; x.read(&mut z); used += 1;
        if let Some(v) = half(z[0] & 15) { a[j] = v; j += 1; }
        if let Some(v) = half(z[0] >> 4) { if j < 256 { a[j] = v; j += 1; } } }
    (a, used)
}
pub fn sample_in_ball(tau: usize, ct: &[u8]) -> (Poly, usize) {
    let mut h = sha3::Shake256::default(); h.update(ct); let mut x = h.finalize_xof();
    let mut s = [0u8; 8]; x.read(&mut s);
    let (mut c, mut used) = ([0i32; 256], 8usize);
    for i in (256 - tau)..256 {
        let mut j = [0u8; 1]; x.read(&mut j); used += 1;
        while j[0] as usize > i { x.read(&mut j); used += 1; }
        c[i] = c[j[0] as usize];
        let idx = i + tau - 256;
        c[j[0] as usize] = 1 - 2 * (((s[idx / 8] >> (idx % 8)) & 1) as i32);
    }
    (c, used)
}
/// Algorithm 29 with the longest run of rejected index bytes at one step (rarity measure for searches)
pub fn sample_in_ball_run(tau: usize, ct: &[u8]) -> (Poly, usize, usize) {
    let mut h = sha3::Shake256::default(); h.update(ct); let mut x = h.finalize_xof();
    let mut s = [0u8; 8]; x.read(&mut s);
    let (mut c, mut used, mut maxrun) = ([0i32; 256], 8usize, 0usize);
    for i in (256 - tau)..256 {
        let mut j = [0u8; 1]; x.read(&mut j); used += 1;
        let mut run = 0usize;
        while j[0] as usize > i { x.read(&mut j); used += 1; run += 1; }
        maxrun = maxrun.max(run);
        c[i] = c[j[0] as usize];
        let idx = i + tau - 256;
        c[j[0] as usize] = 1 - 2 * (((s[idx / 8] >> (idx % 8)) & 1) as i32);
    }
    (c, used, maxrun)
}
pub fn expand_mask_poly(gamma1: i32, rho: &[u8], n: u16) -> Poly {
    let c = if gamma1 == 1 << 17 { 18 } else { 20 };
    let mut h = sha3::Shake256::default(); h.update(rho); h.update(&n.to_le_bytes());
    let mut v = vec![0u8; 32 * c]; h.finalize_xof().read(&mut v);
    core::array::from_fn(|i| { let mut t = 0i32; for k in 0..c { let bit = i * c + k; t |= (((v[bit / 8] >> (bit % 8)) & 1) as i32) << k; } gamma1 - t })
}
