// Large native sweeps that look for RARE events (keys whose t hits the reduction edge, samplers
// that need an extra XOF block, ...) and hand every disagreement, plus the rarest agreeing cases,
// to TLC as ordinary Layer-F events (TraceF.tla).  The harness's own arithmetic only selects cases.
use crate::api::*;
use crate::for_set;
use crate::refmath;
use crate::util::*;
use fips204::verif_hooks as vh;
use serde_json::{json, Value};

fn jp(p: &Poly) -> Value { Value::Array(p.iter().map(|&x| json!(x)).collect()) }

/// generated pk vs derived pk vs round trips, over many seeds; failing seeds get full Layer-F events
pub fn keys<S: MlDsa>(seed: u64, n: usize, out: &mut Out) {
    let mut p = Prng::new(seed, 0x0400 + 0x40 + S::SET as u64);
    let (mut fails, mut kept) = (0u64, 0usize);
    for _ in 0..n {
        let xi = p.arr32();
        let r = guarded(|| {
            let (pk, sk) = S::keygen_seed(&xi);
            let (pkb, skb) = (S::pk_bytes(&pk), S::sk_bytes(&sk));
            let der = S::pk_bytes(&S::derive(&sk));
            let rt = S::sk_from(&skb).map(|k| (S::sk_bytes(&k), S::pk_bytes(&S::derive(&k))));
            let prt = S::pk_from(&pkb).map(|k| S::pk_bytes(&k));
            (pkb, skb, der, rt, prt)
        });
        let bad = match &r { Ok((pkb, skb, der, Ok((sk2, der2)), Ok(pk2))) => !(pkb == der && skb == sk2 && pkb == der2 && pkb == pk2), _ => true };
        if bad {
            fails += 1;
            if kept < 4 {
                kept += 1;
                match r {
                    Ok((pkb, skb, der, _, _)) => {
                        // which side is wrong is for the specification to say: keygen is recomputed in full
                        out.ev(json!({"ev": "KeyGen", "via": "seed", "why": "generated and derived public keys differ", "xi": jbytes(&xi), "pk": jbytes(&pkb), "sk": jbytes(&skb)}));
                        out.ev(json!({"ev": "Same", "what": format!("public key generated vs derived from the private key, seed {}", hexs(&xi)), "a": hexs(&pkb), "b": hexs(&der)}));
                    }
                    Err((loc, msg)) => out.ev(json!({"ev": "Panic", "call": "keygen/derive/round trip", "xi": jbytes(&xi), "loc": loc, "msg": msg})),
                }
            }
        }
    }
    out.ev(json!({"ev": "SweepF", "set": S::SET, "what": "generated pk = derived pk = derived-from-round-tripped-sk pk; sk and pk round trips identical", "cases": n, "failures": fails}));
}

/// Rare-key search: with the harness's own arithmetic, find seeds whose t = A s1 + s2 leaves [0, q) before
/// the final reduction (below 0, at least q, exactly q) -- the only keys on which a slip in that reduction
/// shows -- then run the LIBRARY on exactly those seeds; every one of them is checked for
/// generated = derived = round-tripped, and the rarest are recomputed in full by TLC (KeyGen events).
pub fn edge_keys<S: MlDsa>(seed: u64, n: usize, nfull: usize, out: &mut Out) {
    use crate::fcases::shake256;
    let base = Prng::new(seed, 0x0400 + 0xc0 + S::SET as u64).next();
    let nt = std::thread::available_parallelism().map(|x| x.get()).unwrap_or(8).min(16);
    let found: std::sync::Mutex<Vec<(u32, [u8; 32])>> = std::sync::Mutex::new(vec![]);
    std::thread::scope(|sc| { for t in 0..nt { let found = &found; sc.spawn(move || {
        let mut i = t;
        while i < n {
            let mut xi = [0u8; 32];
            xi[..8].copy_from_slice(&(base.wrapping_add(i as u64)).to_le_bytes());
            xi[8..16].copy_from_slice(&(base ^ 0x5555).to_le_bytes());
            let hh = shake256(&[&xi, &[S::K as u8], &[S::L as u8]], 128);
            let (rho, rhop) = (&hh[..32], &hh[32..96]);
            let mut maxused = 0usize;
            let s1: Vec<Poly> = (0..S::L).map(|r| { let mut sd = rhop.to_vec(); sd.extend_from_slice(&(r as u16).to_le_bytes()); let (p, u) = refmath::rej_bounded_poly(S::ETA, &sd); maxused = maxused.max(u); p }).collect();
            let s2: Vec<Poly> = (0..S::K).map(|r| { let mut sd = rhop.to_vec(); sd.extend_from_slice(&((r + S::L) as u16).to_le_bytes()); let (p, u) = refmath::rej_bounded_poly(S::ETA, &sd); maxused = maxused.max(u); p }).collect();
            let mut maxntt = 0usize;
            let a: Vec<Vec<Poly>> = (0..S::K).map(|r| (0..S::L).map(|c| { let mut sd = rho.to_vec(); sd.push(c as u8); sd.push(r as u8); let (p, u) = refmath::rej_ntt_poly(&sd); maxntt = maxntt.max(u); p }).collect()).collect();
            let w = refmath::mat_vec(&a, &s1);
            // a sampler that needs a third SHAKE256 block (more than 272 bytes) or a sixth SHAKE128 block is a rare path too
            // rarity classes (bit mask in the low digits of the score): 1 t = q exactly, 2 t > q, 4 t < 0, 8 a sampler needs an extra XOF block
            let mut cls = 0u32;
            if maxused > 272 || maxntt > 840 { cls |= 8; }
            for r in 0..S::K { for k in 0..256 {
                let tp = w[r][k] + s2[r][k] as i64;
                if tp == refmath::Q { cls |= 1; } else if tp > refmath::Q { cls |= 2; } else if tp < 0 { cls |= 4; }
                // first / last coefficient of a row within eta of a Power2Round rounding boundary: a slip that touches only
                // one coefficient position (an off-by-one loop bound) changes t1 exactly on such keys
                if k == 0 || k == 255 { let r = refmath::modq(tp) % 8192; if (r - 4096).abs() <= S::ETA as i64 { cls |= if k == 0 { 16 } else { 32 }; } }
            } }
            let score = cls.count_ones() * 100 + cls;
            if score > 0 { found.lock().unwrap().push((score, xi)); }
            i += nt;
        } }); } });
    let mut edges = found.into_inner().unwrap();
    edges.sort_by(|a, b| b.0.cmp(&a.0).then(a.1.cmp(&b.1)));
    // one seed of EVERY rarity class goes first (those are recomputed in full by TLC): a slip that keeps generated and
    // derived keys consistent with each other is only visible against the specification
    let mut front: Vec<(u32, [u8; 32])> = vec![];
    for bit in [1u32, 2, 4, 8, 16, 32] { if let Some(i) = edges.iter().position(|e| (e.0 % 100) & bit != 0 && !front.iter().any(|f| f.1 == e.1)) { front.push(edges[i]); } }
    edges.retain(|e| !front.iter().any(|f| f.1 == e.1));
    let nclass = front.len();
    front.extend(edges);
    let edges = front;
    let nfull = nfull.max(nclass);
    let (mut fails, mut full) = (0u64, 0usize);
    for (k, (score, xi)) in edges.iter().enumerate() {
        let r = guarded(|| {
            let (pk, sk) = S::keygen_seed(xi);
            let (pkb, skb) = (S::pk_bytes(&pk), S::sk_bytes(&sk));
            let der = S::pk_bytes(&S::derive(&sk));
            let der2 = S::sk_from(&skb).map(|k| S::pk_bytes(&S::derive(&k))).unwrap_or_default();
            (pkb, skb, der, der2)
        });
        match r {
            Ok((pkb, skb, der, der2)) => {
                let bad = pkb != der || pkb != der2;
                if bad { fails += 1; }
                // the highest scores (rarest edges) and every disagreement are recomputed in full by TLC
                if (k < nfull || bad) && full < nfull + 3 {
                    full += 1;
                    out.ev(json!({"ev": "KeyGen", "via": "seed", "why": format!("rare key: t leaves [0,q) before the final reduction and/or a sampler needs an extra XOF block (score {})", score), "xi": jbytes(xi), "pk": jbytes(&pkb), "sk": jbytes(&skb)}));
                    out.ev(json!({"ev": "Same", "what": format!("public key generated vs derived from the private key, edge seed {}", hexs(xi)), "a": hexs(&pkb), "b": hexs(&der)}));
                    out.ev(json!({"ev": "Same", "what": format!("public key generated vs derived from the round-tripped private key, edge seed {}", hexs(xi)), "a": hexs(&pkb), "b": hexs(&der2)}));
                }
            }
            Err((loc, msg)) => { fails += 1; if full < nfull + 3 { full += 1; out.ev(json!({"ev": "Panic", "call": "keygen/derive on an edge seed", "xi": jbytes(xi), "loc": loc, "msg": msg})); } }
        }
    }
    out.ev(json!({"ev": "SweepF", "set": S::SET, "what": format!("edge keys (t outside [0,q) before reduction): {} found among {} seeds; generated pk = derived pk on every one", edges.len(), n),
                  "cases": edges.len().max(1), "failures": fails}));
}

/// samplers at scale against the harness's own, rarest cases to TLC (work split over threads, one PRNG stream each)
pub fn samplers<S: MlDsa>(seed: u64, n: usize, nrare: usize, out: &mut Out) {
    type Rare = Vec<(usize, Vec<u8>)>;
    struct Part { cases: u64, fails: u64, evs: Vec<Value>, rb: Rare, rn: Rare, rc: Rare }
    let nt = std::thread::available_parallelism().map(|x| x.get()).unwrap_or(8).min(12).min(n.max(1));
    let parts: std::sync::Mutex<Vec<Part>> = std::sync::Mutex::new(vec![]);
    std::thread::scope(|sc| { for t in 0..nt { let parts = &parts; sc.spawn(move || {
        let mut p = Prng::new(seed, 0x0400 + 0x80 + S::SET as u64 + 1000 * t as u64);
        let mut q = Part { cases: 0, fails: 0, evs: vec![], rb: vec![], rn: vec![], rc: vec![] };
        let ev = |f: &str, seedb: &[u8], got: &Poly, used: usize, why: &str| json!({"ev": "Sampler", "set": S::SET, "fn": f, "seed": jbytes(seedb), "out": jp(got), "xof_bytes": used, "why": why});
        let trim = |v: &mut Rare, k: usize| { if v.len() > 2048 { v.sort_by(|a, b| b.0.cmp(&a.0)); v.truncate(k.max(8)); } };
        let mut i = t;
        while i < n {
            let rho: [u8; 64] = p.bytes(64).try_into().unwrap();
            // ExpandS: the per-polynomial seeds rho || IntegerToBytes(r, 2); the library numbers s1 0..l-1 and s2 l..l+k-1
            let lib_all = guarded(|| (0..(S::L + S::K)).map(|r| lib_bounded::<S>(&rho, r)).collect::<Vec<Poly>>());
            match lib_all {
                Ok(polys) => for rix in 0..(S::L + S::K) as u16 {
                    let mut sd = rho.to_vec(); sd.extend_from_slice(&rix.to_le_bytes());
                    let (mine, used) = refmath::rej_bounded_poly(S::ETA, &sd);
                    q.cases += 1;
                    if polys[rix as usize] != mine { q.fails += 1; if q.fails < 4 { q.evs.push(ev("rej_bounded", &sd, &polys[rix as usize], used, "library differs from the harness's sampler")); } }
                    q.rb.push((used, sd));
                },
                Err((loc, msg)) => { q.fails += 1; if q.fails < 4 { q.evs.push(json!({"ev": "Panic", "call": "expand_s", "loc": loc, "msg": msg})); } }
            }
            trim(&mut q.rb, nrare);
            if i % 8 == 0 {
                let rho32 = p.arr32();
                match guarded(|| S::expand_a(&rho32)) {
                    Ok(a) => for r in 0..S::K { for s in 0..S::L {
                        let mut sd = rho32.to_vec(); sd.push(s as u8); sd.push(r as u8);
                        let (mine, used) = refmath::rej_ntt_poly(&sd);
                        q.cases += 1;
                        if a[r][s] != mine { q.fails += 1; if q.fails < 4 { q.evs.push(ev("rej_ntt", &sd, &a[r][s], used, "library differs from the harness's sampler")); } }
                        q.rn.push((used, sd));
                    } },
                    Err((loc, msg)) => { q.fails += 1; if q.fails < 4 { q.evs.push(json!({"ev": "Panic", "call": "expand_a", "loc": loc, "msg": msg})); } }
                }
                trim(&mut q.rn, nrare);
            }
            let ct = p.bytes(S::LAMBDA / 4);
            let (mine, used) = refmath::sample_in_ball(S::TAU as usize, &ct);
            match guarded(|| vh::sample_in_ball::<false>(S::TAU, &ct)) {
                Ok(lib) => { q.cases += 1; if lib != mine { q.fails += 1; if q.fails < 4 { q.evs.push(ev("sample_in_ball", &ct, &lib, used, "library differs from the harness's sampler")); } } }
                Err((loc, msg)) => { q.fails += 1; if q.fails < 4 { q.evs.push(json!({"ev": "Panic", "call": "sample_in_ball", "loc": loc, "msg": msg})); } }
            }
            q.rc.push((used, ct));
            trim(&mut q.rc, nrare);
            if i % 4 == 0 {
                let mu = [0u16, 1, 255, 256, 257, 511, 512, 65535 - S::L as u16, p.below(65536 - 8) as u16][(i / 4) % 9];
                match guarded(|| lib_mask::<S>(&rho, mu)) {
                    Ok(lib) => {
                        for (r, lp) in lib.iter().enumerate() {
                            let mine = refmath::expand_mask_poly(S::GAMMA1, &rho, mu + r as u16);
                            q.cases += 1;
                            if *lp != mine { q.fails += 1; if q.fails < 4 { let mut sd = rho.to_vec(); sd.extend_from_slice(&(mu + r as u16).to_le_bytes()); q.evs.push(ev("expand_mask", &sd, lp, 0, "library differs from the harness's sampler")); } }
                        }
                        if i % 8000 == 0 { let mut sd = rho.to_vec(); sd.extend_from_slice(&mu.to_le_bytes()); q.evs.push(ev("expand_mask", &sd, &lib[0], 0, "sample")); }
                    }
                    Err((loc, msg)) => { q.fails += 1; if q.fails < 4 { q.evs.push(json!({"ev": "Panic", "call": "expand_mask", "loc": loc, "msg": msg})); } }
                }
            }
            i += nt;
        }
        parts.lock().unwrap().push(q);
    }); } });
    // SampleInBall alone, at scale: the challenge hash is attacker-chosen input of Verify, and a step of Algorithm 29 can reject
    // many index bytes in a row (eleven in a row: 4e-7 per challenge).  Millions of hashes through the library and the harness's
    // own sampler; the ones with the longest rejection runs go to TLC below (list rc, scored above every ordinary case).
    {
        let nb = (n * 2000).min(if n >= 100_000 { 64_000_000 } else { 10_000_000 });
        let hunt: std::sync::Mutex<(u64, u64, Vec<Value>, Rare)> = std::sync::Mutex::new((0, 0, vec![], vec![]));
        std::thread::scope(|sc| { for t in 0..nt { let hunt = &hunt; sc.spawn(move || {
            let base = Prng::new(seed, 0x0400 + 0xb0 + S::SET as u64).next();
            let (mut cases, mut fails, mut evs, mut rare): (u64, u64, Vec<Value>, Rare) = (0, 0, vec![], vec![]);
            let mut i = t;
            while i < nb {
                let mut ct = vec![0x5eu8; S::LAMBDA / 4];
                ct[..8].copy_from_slice(&base.wrapping_add(i as u64).to_le_bytes());
                let (mine, _used, run) = refmath::sample_in_ball_run(S::TAU as usize, &ct);
                cases += 1;
                match guarded(|| vh::sample_in_ball::<false>(S::TAU, &ct)) {
                    Ok(lib) => if lib != mine { fails += 1; if fails < 3 { evs.push(json!({"ev": "Sampler", "set": S::SET, "fn": "sample_in_ball", "seed": jbytes(&ct), "out": jp(&lib), "xof_bytes": 0, "why": format!("library differs from the harness's sampler (longest rejection run {})", run)})); } },
                    Err((loc, msg)) => { fails += 1; if fails < 3 { evs.push(json!({"ev": "Panic", "call": "sample_in_ball", "loc": loc, "msg": msg})); } }
                }
                if run >= 7 { rare.push((100_000 + run, ct)); if rare.len() > 512 { rare.sort_by(|a, b| b.0.cmp(&a.0)); rare.truncate(64); } }
                i += nt;
            }
            let mut g = hunt.lock().unwrap(); g.0 += cases; g.1 += fails; g.2.extend(evs.into_iter().take(2)); g.3.extend(rare);
        }); } });
        let g = hunt.into_inner().unwrap();
        parts.lock().unwrap().push(Part { cases: g.0, fails: g.1, evs: g.2, rb: vec![], rn: vec![], rc: g.3 });
    }
    let parts = parts.into_inner().unwrap();
    let (mut cases, mut fails) = (0u64, 0u64);
    let (mut rb, mut rn, mut rc): (Rare, Rare, Rare) = (vec![], vec![], vec![]);
    for q in parts { cases += q.cases; fails += q.fails; for e in q.evs.into_iter().take(6) { out.ev(e); } rb.extend(q.rb); rn.extend(q.rn); rc.extend(q.rc); }
    // the rarest cases (most XOF output consumed) of each rejection sampler, judged by TLC
    for (list, f) in [(&mut rb, "rej_bounded"), (&mut rn, "rej_ntt"), (&mut rc, "sample_in_ball")] {
        list.sort_by(|a, b| b.0.cmp(&a.0).then(a.1.cmp(&b.1)));
        for (used, sd) in list.iter().take(nrare) {
            let lib = guarded(|| match f { "rej_bounded" => lib_bounded_seed::<S>(sd), "rej_ntt" => { let rho: [u8; 32] = sd[..32].try_into().unwrap(); S::expand_a(&rho)[sd[33] as usize][sd[32] as usize] }, _ => vh::sample_in_ball::<false>(S::TAU, sd) });
            match lib {
                Ok(l) => out.ev(json!({"ev": "Sampler", "set": S::SET, "fn": f, "seed": jbytes(sd), "out": jp(&l), "xof_bytes": used, "why": "rarest of the sweep (most XOF bytes consumed)"})),
                Err((loc, msg)) => out.ev(json!({"ev": "Panic", "call": f, "loc": loc, "msg": msg})),
            }
        }
    }
    out.ev(json!({"ev": "SweepF", "set": S::SET, "what": "ExpandS / ExpandA / SampleInBall / ExpandMask of the library equal the harness's samplers", "cases": cases, "failures": fails}));
}

fn lib_bounded<S: MlDsa>(rho: &[u8; 64], idx: usize) -> Poly {
    // expand_s numbers s1 0..L-1 and s2 L..L+K-1 with the set's own (K, L)
    match S::SET {
        44 => { let (a, b) = vh::expand_s::<4, 4>(S::ETA, rho); if idx < 4 { a[idx] } else { b[idx - 4] } }
        65 => { let (a, b) = vh::expand_s::<6, 5>(S::ETA, rho); if idx < 5 { a[idx] } else { b[idx - 5] } }
        _ => { let (a, b) = vh::expand_s::<8, 7>(S::ETA, rho); if idx < 7 { a[idx] } else { b[idx - 7] } }
    }
}
fn lib_bounded_seed<S: MlDsa>(sd: &[u8]) -> Poly { let rho: [u8; 64] = sd[..64].try_into().unwrap(); lib_bounded::<S>(&rho, sd[64] as usize) }
fn lib_mask<S: MlDsa>(rho: &[u8; 64], mu: u16) -> Vec<Poly> {
    match S::SET { 44 => vh::expand_mask::<4>(S::GAMMA1, rho, mu).to_vec(), 65 => vh::expand_mask::<5>(S::GAMMA1, rho, mu).to_vec(), _ => vh::expand_mask::<7>(S::GAMMA1, rho, mu).to_vec() }
}

/// C14: RNG seeds (first 32 bytes = xi) whose key, under the CONSTANT-TIME TEST MODE samplers, has a coefficient
/// of t = A s1 + s2 outside [0, q) before the final reduction: the rare keys on which code that treats
/// "already in range" specially takes another path.  Prints hex seeds, rarest first.
pub fn ct_edge_seeds<S: MlDsa>(seed: u64, n: usize, want: usize) {
    use crate::fcases::shake256;
    let base = Prng::new(seed, 0x1400 + 0xc0 + S::SET as u64).next();
    let nt = std::thread::available_parallelism().map(|x| x.get()).unwrap_or(8).min(16);
    let found: std::sync::Mutex<Vec<(u32, [u8; 32])>> = std::sync::Mutex::new(vec![]);
    std::thread::scope(|sc| { for t in 0..nt { let found = &found; sc.spawn(move || {
        let mut i = t;
        while i < n {
            let mut xi = [0u8; 32];
            xi[..8].copy_from_slice(&(base.wrapping_add(i as u64)).to_le_bytes());
            let hh = shake256(&[&xi, &[S::K as u8], &[S::L as u8]], 128);
            let (rho, rhop) = (&hh[..32], &hh[32..96]);
            let s1: Vec<Poly> = (0..S::L).map(|r| { let mut sd = rhop.to_vec(); sd.extend_from_slice(&(r as u16).to_le_bytes()); refmath::rej_bounded_poly_ct(S::ETA, &sd) }).collect();
            let s2: Vec<Poly> = (0..S::K).map(|r| { let mut sd = rhop.to_vec(); sd.extend_from_slice(&((r + S::L) as u16).to_le_bytes()); refmath::rej_bounded_poly_ct(S::ETA, &sd) }).collect();
            let a: Vec<Vec<Poly>> = (0..S::K).map(|r| (0..S::L).map(|c| { let mut sd = rho.to_vec(); sd.push(c as u8); sd.push(r as u8); refmath::rej_ntt_poly_ct(&sd) }).collect()).collect();
            let w = refmath::mat_vec(&a, &s1);
            let mut score = 0u32;
            for r in 0..S::K { for k in 0..256 { let tp = w[r][k] + s2[r][k] as i64; if tp == refmath::Q { score += 1000; } else if tp > refmath::Q { score += 100; } else if tp < 0 { score += 10; } } }
            if score > 0 { found.lock().unwrap().push((score, xi)); }
            i += nt;
        } }); } });
    let mut e = found.into_inner().unwrap();
    e.sort_by(|a, b| b.0.cmp(&a.0).then(a.1.cmp(&b.1)));
    for (score, xi) in e.iter().take(want) { println!("CTEDGE {} {} {}", S::SET, score, hexs(xi)); }
}

/// Inputs of ExpandMask whose first mask polynomial STARTS with a zero coefficient (2^-18 / 2^-20 of all rho''): code that
/// scans a secret polynomial and stops at the first (non-)zero coefficient behaves differently exactly there.  Searched with
/// the harness's own SHAKE256 (the first `bits` bits of the stream equal gamma1), confirmed through the library's ExpandMask.
pub fn ct_mask_seeds(seed: u64, n: usize, want: usize, bits: u32) {
    use crate::fcases::shake256;
    let base = Prng::new(seed, 0x1400 + 0xa0 + bits as u64).next();
    let nt = std::thread::available_parallelism().map(|x| x.get()).unwrap_or(8).min(16);
    let found: std::sync::Mutex<Vec<[u8; 64]>> = std::sync::Mutex::new(vec![]);
    std::thread::scope(|sc| { for t in 0..nt { let found = &found; sc.spawn(move || {
        let mut i = t;
        while i < n {
            if i % 65536 < nt && found.lock().unwrap().len() >= want { break; }
            let mut rho = [0x3cu8; 64];
            rho[..8].copy_from_slice(&(base.wrapping_add(i as u64)).to_le_bytes());
            let h = shake256(&[&rho, &[0u8, 0u8]], 3);
            let v = (h[0] as u32) | ((h[1] as u32) << 8) | ((h[2] as u32) << 16);
            if v & ((1 << bits) - 1) == 1 << (bits - 1) { found.lock().unwrap().push(rho); }
            i += nt;
        } }); } });
    let mut e = found.into_inner().unwrap();
    e.sort();
    for rho in e.iter().take(want) {
        let ok = if bits == 18 { vh::expand_mask::<1>(1 << 17, rho, 0)[0][0] == 0 } else { vh::expand_mask::<1>(1 << 19, rho, 0)[0][0] == 0 };
        if ok { println!("CTMASK {} {}", bits, hexs(rho)); }
    }
}

/// RNG outputs for which the mask of the (single, constant-time test mode) signing attempt has a special shape: a polynomial
/// starting with a zero coefficient (about 1 in 150 000 - 260 000), else many zero coefficients.  Found by running the real
/// entry point natively with the `expand_mask_out` hook event; the chosen outputs are then observed under valgrind.
pub fn ct_pipe_seeds<S: MlDsa>(seed: u64, n: usize, want: usize) {
    let base = Prng::new(seed, 0x1400 + 0xb0 + S::SET as u64).next();
    let nt = std::thread::available_parallelism().map(|x| x.get()).unwrap_or(8).min(16);
    let found: std::sync::Mutex<Vec<(i64, Vec<u8>)>> = std::sync::Mutex::new(vec![]);
    std::thread::scope(|sc| { for t in 0..nt { let found = &found; sc.spawn(move || {
        let mut i = t;
        while i < n {
            let mut rng = vec![0xa7u8; 64];
            rng[32..40].copy_from_slice(&(base.wrapping_add(i as u64)).to_le_bytes());     // xi fixed, rnd varies
            vh::trace_start();
            let r = guarded(|| S::dudect(&mut ScriptRng::new(&rng), &[0u8, 1, 2, 3, 4, 5, 6, 7]));
            let evs = vh::trace_take();
            if r.is_ok() {
                if let Some(e) = evs.iter().find(|e| e.0 == "expand_mask_out" && e.1[0] == 0) {
                    let score = 100_000 * e.1[1] + e.1[2];
                    if e.1[1] > 0 || e.1[2] >= 1 { found.lock().unwrap().push((score, rng)); }
                }
            }
            i += nt;
        } }); } });
    let mut e = found.into_inner().unwrap();
    e.sort_by(|a, b| b.0.cmp(&a.0).then(a.1.cmp(&b.1)));
    for (score, rng) in e.iter().take(want) { println!("CTPIPE {} {} {}", S::SET, score, hexs(rng)); }
}

pub fn run(a: &Args) {
    if a.u("ctmask", 0) > 0 {
        for bits in [18u32, 20] { ct_mask_seeds(a.u("seed", 1), a.u("ctmask", 0) as usize, a.u("want", 1) as usize, bits); }
        return;
    }
    if a.u("ctpipe", 0) > 0 {
        for set in a.sets() { let (n, w) = (a.u("ctpipe", 0) as usize, a.u("want", 1) as usize); for_set!(set, ct_pipe_seeds(a.u("seed", 1), n, w)); }
        return;
    }
    if a.u("ctedge", 0) > 0 {
        for set in a.sets() { let (n, w) = (a.u("ctedge", 0) as usize, a.u("want", 2) as usize); for_set!(set, ct_edge_seeds(a.u("seed", 1), n, w)); }
        return;
    }
    let seed = a.u("seed", 1);
    for set in a.sets() {
        let mut out = Out::create(&format!("{}/sweeps_{}.ndjson", a.s("out", "/verif/work/sweeps"), set));
        let (nk, ns, nr) = (a.u("nkeys", 2000) as usize, a.u("nsamplers", 2000) as usize, a.u("nrare", 2) as usize);
        if nk > 0 { for_set!(set, keys(seed, nk, &mut out)); }
        let (ne, nef) = (a.u("nedge", 0) as usize, a.u("nedgefull", 1) as usize);
        if ne > 0 { for_set!(set, edge_keys(seed, ne, nef, &mut out)); }
        if ns > 0 { for_set!(set, samplers(seed, ns, nr, &mut out)); }
        println!("sweeps set={} events={}", set, out.finish());
    }
}
