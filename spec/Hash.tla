---------------------------- MODULE Hash ----------------------------
(* The hash primitives of Section 3.7 as ORACLE operators: the specification says    *)
(* which function is applied to exactly which bytes and how many bytes are squeezed; *)
(* the primitive itself is evaluated by an external helper (built from the sha2/sha3 *)
(* crates, self-tested at setup) through CommunityModules' IOExec.  The helper       *)
(* writes its output as a JSON array and prints the file name (TLC cannot index      *)
(* strings).  VERIF_XOF names the helper, XOF_DIR its scratch directory.             *)
EXTENDS Codec, IOUtils, Json

XOF(fn, in, n) ==
  LET r == IOExec(<< IOEnv.VERIF_XOF, fn, ToString(n), ToString(in) >>)
  IN IF r.exitValue = 0 THEN JsonDeserialize(r.stdout) ELSE Assert(FALSE, << "hash helper failed", r >>)
H(in, n) == XOF("shake256", in, n)       \* H(v, l) = SHAKE256(v, 8l)
G(in, n) == XOF("shake128", in, n)       \* G(v, l) = SHAKE128(v, 8l)
SHA256(in)   == XOF("sha256", in, 32)
SHA512(in)   == XOF("sha512", in, 64)
SHAKE128x32(in) == XOF("shake128", in, 32)
=======================================================================
