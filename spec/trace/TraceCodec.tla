---------------------------- MODULE TraceCodec ----------------------------
(* C08 / C10: recorded evaluations of the library's encoders and decoders (through the   *)
(* verif-hooks wrappers and through the public deserialisers), judged by TLC from         *)
(* Codec.tla (Algorithms 16-28).  Hints travel as lists of the positions that are 1.      *)
EXTENDS MLDSA

Rec == ndJsonDeserialize(IOEnv.TRACE)
VARIABLES tr, l, bad, judged
vars == << tr, l, bad, judged >>
View == l
Init == tr = Rec /\ l = 1 /\ bad = << >> /\ judged = 0
Ev == tr[l]
MySet == IF KK = 4 THEN 44 ELSE IF KK = 6 THEN 65 ELSE 87
Mine(e) == ("set" \notin DOMAIN e) \/ e.set = MySet

Fn(seq) == [n \in Idx |-> seq[n + 1]]
SameSeq(seq, p) == \A n \in Idx : seq[n + 1] = p[n]
\* positions of the ones of each polynomial of a hint vector (sorted ascending), as sequences
Ones(h) == [i \in 1 .. KK |-> SelectSeq(IdxSeq, LAMBDA j : h[i - 1][j] # 0)]
HintFrom(pos) == [i \in 0 .. KK - 1 |-> [j \in Idx |-> IF \E t \in 1 .. Len(pos[i + 1]) : pos[i + 1][t] = j THEN 1 ELSE 0]]

HintUnpackOK(e) == LET u == HintBitUnpack(e.y) IN
                   /\ u.ok = e.ok /\ u.ok = HintWellFormed(e.y)            \* Algorithm 21 and the declarative rule agree
                   /\ (e.ok => Ones(u.h) = e.h)
HintPackOK(e)   == HintBitPack(HintFrom(e.h)) = e.y
InRange(w, a, b) == \A n \in Idx : w[n] >= -a /\ w[n] <= b
\* the library routes SimpleBitPack/SimpleBitUnpack (Algorithms 16, 18) through the same function with a = 0
BitUnpackOK(e)  == LET w == IF e.a = 0 THEN SimpleBitUnpack(e.v, e.b) ELSE BitUnpack(e.v, e.a, e.b) IN
                   /\ e.ok = InRange(w, e.a, e.b)                           \* the library's documented rejection rule
                   /\ (e.ok => SameSeq(e.w, w))
BitPackOK(e)    == (IF e.a = 0 THEN SimpleBitPack(Fn(e.w), e.b) ELSE BitPack(Fn(e.w), e.a, e.b)) = e.v
W1OK(e)         == W1Encode([i \in 0 .. KK - 1 |-> Fn(e.w1[i + 1])]) = e.out
SigDecodeOK(e) ==
  LET s == SigDecode(e.sig) IN
  /\ e.ok = s.hok
  /\ (e.ok => /\ e.ct = s.ct
              /\ \A i \in 0 .. LL - 1 : SameSeq(e.z[i + 1], s.z[i])
              /\ Ones(s.h) = e.h
              /\ SigEncode(s.ct, s.z, s.h) = e.sig)                          \* canonical: re-encoding reproduces the bytes
SigEncodeOK(e) == SigEncode(e.ct, [i \in 0 .. LL - 1 |-> Fn(e.z[i + 1])], HintFrom(e.h)) = e.sig
PkDecodeOK(e) == LET p == PkDecode(e.pk) IN
                 /\ e.ok /\ \A i \in 0 .. KK - 1 : SameSeq(e.t1[i + 1], p.t1[i])
                 /\ PkEncode(p.rho, p.t1) = e.pk
\* C10: private-key deserialisation accepts exactly the strings whose s1/s2 fields decode into [-eta, eta]
SkAcceptOK(e) == e.ok = SkAccept(e.sk)
SkDecodeOK(e) == LET d == SkDecode(e.sk) IN
                 /\ e.ok = (ShortOK(d.s1, LL) /\ ShortOK(d.s2, KK))
                 /\ (e.ok => /\ \A i \in 0 .. LL - 1 : SameSeq(e.s1[i + 1], d.s1[i])
                             /\ \A i \in 0 .. KK - 1 : SameSeq(e.s2[i + 1], d.s2[i]) /\ SameSeq(e.t0[i + 1], d.t0[i])
                             /\ SkEncode(d.rho, d.K, d.tr, d.s1, d.s2, d.t0) = e.sk)
\* sweeps done natively: an identity (re-encode = input) or a field-by-field acceptance comparison with a
\* rule the specification states (field <= 2*eta); the event reports how many cases and how many failed
SweepOK(e) == e.cases > 0 /\ e.failures = 0

OK(e) == CASE e.ev = "HintUnpack" -> HintUnpackOK(e) [] e.ev = "HintPack" -> HintPackOK(e)
           [] e.ev = "BitUnpack" -> BitUnpackOK(e) [] e.ev = "BitPack" -> BitPackOK(e)
           [] e.ev = "W1Encode" -> W1OK(e) [] e.ev = "SigDecode" -> SigDecodeOK(e) [] e.ev = "SigEncode" -> SigEncodeOK(e)
           [] e.ev = "PkDecode" -> PkDecodeOK(e) [] e.ev = "SkAccept" -> SkAcceptOK(e) [] e.ev = "SkDecode" -> SkDecodeOK(e)
           [] e.ev = "Sweep" -> SweepOK(e) [] OTHER -> FALSE
Next == /\ l <= Len(tr)
        /\ IF Mine(Ev)
           THEN /\ l' = l + 1 /\ UNCHANGED tr /\ judged' = judged + 1
                /\ IF OK(Ev) THEN bad' = bad
                   ELSE PrintT(<< "MISMATCH", l, Ev.ev, IF "what" \in DOMAIN Ev THEN Ev.what ELSE "" >>) /\ bad' = Append(bad, l)
           ELSE l' = l + 1 /\ UNCHANGED << tr, bad, judged >>
Done == /\ l = Len(tr) + 1 /\ PrintT(<< "TRACE_DONE", Len(tr), "judged", judged, "mismatches", bad >>)
        /\ l' = l + 1 /\ UNCHANGED << tr, bad, judged >>
Spec == Init /\ [][Next \/ Done]_vars
=======================================================================
