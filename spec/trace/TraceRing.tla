---------------------------- MODULE TraceRing ----------------------------
(* C18 (and the magnitude part of C13): recorded evaluations of the library's transform, *)
(* pointwise-multiply/accumulate and inverse-transform pipeline, judged by TLC from       *)
(* Ring.tla (NTT of Algorithms 41/42 and the defining schoolbook product), and the        *)
(* magnitudes reported by the instrumented code, judged against the transfer functions    *)
(* of the bounds model (ImplBoundFns.tla; mechanism M4).                                   *)
EXTENDS MLDSA

IB == INSTANCE ImplBoundFns WITH L <- LL, K <- KK, COPYIN_REDUCES <- TRUE

Rec == ndJsonDeserialize(IOEnv.TRACE)
VARIABLES tr, l, bad, magbad, judged
vars == << tr, l, bad, magbad, judged >>
View == l
Init == tr = Rec /\ l = 1 /\ bad = << >> /\ magbad = << >> /\ judged = 0
Ev == tr[l]
R32 == 4193792                                  \* 2^32 mod q

Fn(seq) == [n \in Idx |-> seq[n + 1] % Q]       \* JSON arrays are 1-based sequences
SameModQ(seq, p) == \A n \in Idx : seq[n + 1] % Q = p[n]
NttOK(e)  == SameModQ(e.out, NTT(TLCEval(Fn(e.in))))
InvOK(e)  == /\ SameModQ(e.out, InvNTT(TLCEval(Fn(e.in))))
             /\ \A n \in Idx : e.out[n + 1] >= 0 /\ e.out[n + 1] < Q           \* inv_ntt returns canonical residues
ProdOK(e) == SameModQ(e.out, Schoolbook(TLCEval(Fn(e.a)), TLCEval(Fn(e.b))))
ZetaOK(e) == \A i \in 0 .. N - 1 : e.table[i + 1] = MulMod(Zeta(i), R32)
MatVecOK(e) ==
  LET A == ExpandA(e.rho)
      u == TLCEval([j \in 0 .. LL - 1 |-> TLCEval(Fn(e.u[j + 1]))])
  IN \A i \in 0 .. KK - 1 : SameModQ(e.out[i + 1], RowDot(A[i], u))

\* ---- magnitude conformance: a fold over the hook events of one public call
\* st = [nin |-> last ntt input magnitude, copy |-> last inv_ntt copy-in magnitude, ok |-> ..., why |-> ...]
MagStep(st, h) ==
  LET nm == h[1]  v == h[2]
      fail(w) == [st EXCEPT !.ok = FALSE, !.why = IF st.ok THEN << w, h >> ELSE st.why]
  IN CASE nm = "ntt_in"  -> IF v <= GAMMA1 THEN [st EXCEPT !.nin = v] ELSE fail("forward transform input above every call-site range")
       [] nm = "ntt_out" -> IF v <= IB!Fwd(st.nin, 8) THEN st ELSE fail("forward transform output above the envelope")
       [] nm = "mvm_in"  -> IF h[2] < Q /\ h[3] < IB!PRE64X /\ h[4] <= IB!ToMontOut THEN st ELSE fail("mat_vec_mul operand / to_mont precondition")
       [] nm = "mvm_out" -> IF v <= IB!MvmOut THEN st ELSE fail("mat_vec_mul accumulation above the envelope")
       [] nm = "inv_ntt_in" -> IF h[2] < IB!PRE32 /\ h[3] <= IB!PR32B(h[2]) /\ h[3] <= 8388607
                               THEN [st EXCEPT !.copy = h[3]] ELSE fail("inv_ntt copy-in not reduced as modelled")
       [] nm = "inv_ntt_layer" -> IF h[3] <= st.copy * 2 * h[2] /\ h[3] < 2147483647 THEN st ELSE fail("inverse transform layer above the envelope")
       [] nm = "expand_mask_out" -> IF h[5] <= GAMMA1 /\ h[3] <= LL /\ h[4] <= LL * N THEN st ELSE fail("ExpandMask output outside [-gamma1+1, gamma1]")
       [] OTHER -> st
MagFold(evs) == FoldLeft(MagStep, [nin |-> GAMMA1, copy |-> 0, ok |-> TRUE, why |-> << >>], evs)

Mine(e) == ("set" \notin DOMAIN e) \/ e.set = IF KK = 4 THEN 44 ELSE IF KK = 6 THEN 65 ELSE 87
Judge(ok) == /\ l' = l + 1 /\ UNCHANGED << tr, magbad >> /\ judged' = judged + 1
             /\ IF ok THEN bad' = bad ELSE PrintT(<< "MISMATCH", l, Ev.ev, IF "what" \in DOMAIN Ev THEN Ev.what ELSE "" >>) /\ bad' = Append(bad, l)
Next == /\ l <= Len(tr)
        /\ \/ Ev.ev = "Ntt" /\ Judge(NttOK(Ev))
           \/ Ev.ev = "InvNtt" /\ Judge(InvOK(Ev))
           \/ Ev.ev = "Product" /\ Judge(ProdOK(Ev))
           \/ Ev.ev = "Zeta" /\ Judge(ZetaOK(Ev))
           \/ Ev.ev = "MatVec" /\ Mine(Ev) /\ Judge(MatVecOK(Ev))
           \/ Ev.ev = "Panic" /\ Judge(FALSE)
           \/ /\ Ev.ev = "Mag" /\ Mine(Ev)
              /\ LET r == MagFold(Ev.events) IN
                 /\ l' = l + 1 /\ UNCHANGED << tr, bad >> /\ judged' = judged + 1
                 /\ IF r.ok THEN magbad' = magbad
                    ELSE PrintT(<< "MAGNITUDE", l, Ev.call, r.why >>) /\ magbad' = Append(magbad, l)
           \/ /\ Ev.ev \in {"MatVec", "Mag"} /\ ~Mine(Ev) /\ l' = l + 1 /\ UNCHANGED << tr, bad, magbad, judged >>
Done == /\ l = Len(tr) + 1 /\ PrintT(<< "TRACE_DONE", Len(tr), "judged", judged, "mismatches", bad, "magnitude", magbad >>)
        /\ l' = l + 1 /\ UNCHANGED << tr, bad, magbad, judged >>
Spec == Init /\ [][Next \/ Done]_vars
=======================================================================
