SPECIFICATION TSpec
VIEW TView
CONSTRAINT Track
INVARIANTS DroppedIsZero
CHECK_DEADLOCK FALSE
POSTCONDITION Accepted
