---------------------------- MODULE TraceAPI ----------------------------
(* Trace validation with Layer A (spec/API.tla) as the judge.  One trace line per    *)
(* public call of the real library, logged at its return; each trace action is       *)
(*   IsEv(name) /\ <API action with the logged arguments> /\ <logged result = out'>   *)
(* so an execution is accepted iff it is a behaviour of the API state machine with    *)
(* exactly the observed results.  Acceptance is by POSTCONDITION on the number of     *)
(* consumed lines; the first unmatched line is printed.                               *)
EXTENDS API, Json, IOUtils

Rec == ndJsonDeserialize(IOEnv.TRACE)

VARIABLES tr, l
tvars == << keys, issued, sigof, ser, fmt, out, tr, l >>
TView == l                           \* the trace is linear: its position identifies the state

SigLen == [s \in Sets |-> CASE s = 44 -> 2420 [] s = 65 -> 3309 [] s = 87 -> 4627]
PkLen  == [s \in Sets |-> CASE s = 44 -> 1312 [] s = 65 -> 1952 [] s = 87 -> 2592]
SkLen  == [s \in Sets |-> CASE s = 44 -> 2560 [] s = 65 -> 4032 [] s = 87 -> 4896]
\* size_of the key structs: 32+64 (+32) bytes of seeds/hashes and 1024 bytes per polynomial
PkSize == [s \in Sets |-> CASE s = 44 -> 96 + 1024 * 4 [] s = 65 -> 96 + 1024 * 6 [] s = 87 -> 96 + 1024 * 8]
SkSize == [s \in Sets |-> CASE s = 44 -> 128 + 1024 * 12 [] s = 65 -> 128 + 1024 * 17 [] s = 87 -> 128 + 1024 * 23]

TInit == AInit /\ tr = Rec /\ l = 1
Ev == tr[l]
IsEv(e) == l <= Len(tr) /\ Ev.ev = e /\ l' = l + 1 /\ UNCHANGED tr
NoPanic == "panic" \notin DOMAIN Ev

TKeyGenSeed == /\ IsEv("KeyGenSeed") /\ NoPanic
               /\ KeyGenSeed(Ev.set, Ev.seed, Ev.pk, Ev.sk)
TKeyGenRng ==  /\ IsEv("KeyGenRng") /\ NoPanic
               /\ KeyGenRng(Ev.set, Ev.draw, Ev.fault, Ev.pk, Ev.sk)
               /\ out'.ok = Ev.ok /\ out'.rnglog = Ev.rnglog
TSign ==       /\ IsEv("Sign") /\ NoPanic
               /\ Sign(Ev.sk, Ev.msg, Ev.ctx, Ev.ctxlen, Ev.mode, Ev.mp, Ev.draw, Ev.fault, Ev.sig)
               /\ out'.ok = Ev.ok /\ out'.rnglog = Ev.rnglog
TVerify ==     /\ IsEv("Verify") /\ NoPanic
               /\ Verify(Ev.pk, Ev.msg, Ev.ctx, Ev.ctxlen, Ev.mode, Ev.mp, Ev.sig)
               /\ out'.res = Ev.res
\* the internal interface (Algorithms 7, 8 on a given M'): same issuing function, no context rule, nothing drawn
TSignInternal == /\ IsEv("SignInternal") /\ NoPanic
               /\ SignInternal(Ev.sk, Ev.mp, Ev.draw, Ev.sig)
TVerifyInternal == /\ IsEv("VerifyInternal") /\ NoPanic
               /\ VerifyInternal(Ev.pk, Ev.mp, Ev.sig)
               /\ out'.res = Ev.res
TDudect ==     /\ IsEv("Dudect") /\ NoPanic
               /\ Dudect(Ev.fault, Ev.at)
               /\ out'.ok = Ev.ok /\ out'.rnglog = Ev.rnglog
TOsRng ==      /\ IsEv("OsRng") /\ NoPanic
               /\ OsRng(Ev.entry, Ev.healthy)
               /\ out'.ok = Ev.ok
TSer ==        /\ IsEv("Ser") /\ NoPanic
               /\ Serialise(Ev.h, Ev.bytes)
               /\ Ev.len = IF keys[Ev.h].kind = "pk" THEN PkLen[keys[Ev.h].set] ELSE SkLen[keys[Ev.h].set]
\* public keys: every string of the right length is accepted; private keys: a string this trace
\* saw the library serialise must be accepted (unknown private-key strings are judged by C10)
TDeser ==      /\ IsEv("Deser") /\ NoPanic
               /\ LET known == \E k \in DOMAIN ser : ser[k] = Ev.bytes /\ k[1] = Ev.kind /\ k[2] = Ev.set
                      must == Ev.kind = "pk" \/ known
                  IN /\ must => Ev.ok
                     /\ Deserialise(Ev.kind, Ev.set, Ev.bytes, Ev.ok, Ev.h)
TDerive ==     IsEv("Derive") /\ NoPanic /\ Derive(Ev.sk, Ev.pk)
TClone ==      IsEv("Clone") /\ NoPanic /\ Clone(Ev.h, Ev.h2)
\* C16: the whole object, of exactly the predicted size, held key material before and is all-zero after
TDrop ==       /\ IsEv("Drop") /\ NoPanic
               /\ Live(Ev.h)
               /\ Ev.size = IF keys[Ev.h].kind = "pk" THEN PkSize[keys[Ev.h].set] ELSE SkSize[keys[Ev.h].set]
               /\ Ev.nonzero_before >= 32          \* a live key is not blank: at least its 64-byte hash field is set
               /\ Drop(Ev.h)
               /\ out'.nonzero_after = Ev.nonzero_after
               /\ Ev.nonzero_after_free <= 64     \* a boxed copy, dropped and FREED: only allocator bookkeeping may remain
\* C05: EVERY single-bit position of the field was flipped and none of the flipped tuples verified.
\* The base tuple must be issued and verify; each flipped tuple differs from every issued one in the
\* flipped component (or is a foreign key), so the ideal functionality rejects it.
TFlipSweep ==  /\ IsEv("FlipSweep") /\ NoPanic
               /\ IsPk(Ev.pk)
               /\ Verdict(Ev.pk, Ev.ctxlen, Ev.mp, Ev.sig)
               /\ Ev.base_res = TRUE
               /\ Ev.nbits = 8 * (CASE Ev.field = "sig" -> SigLen[keys[Ev.pk].set]
                                    [] Ev.field = "pk"  -> PkLen[keys[Ev.pk].set]
                                    [] Ev.field = "msg" -> Ev.msglen
                                    [] Ev.field = "ctx" -> Ev.ctxlen)
               /\ Ev.accepted = << >>
               /\ out' = [op |-> "FlipSweep"]
               /\ UNCHANGED << keys, issued, sigof, ser, fmt >>
\* C12: every bit of the 32-byte draw influences the output: all 256 single-bit variations of the
\* draw give pairwise different outputs, different from the base output
TDrawSweep ==  /\ IsEv("DrawSweep") /\ NoPanic
               /\ Ev.nbits = 256 /\ Ev.distinct_outputs = 257
               /\ out' = [op |-> "DrawSweep"]
               /\ UNCHANGED << keys, issued, sigof, ser, fmt >>
\* C12: the OS-RNG convenience functions draw fresh randomness on every call
TFresh ==      /\ IsEv("Fresh") /\ NoPanic
               /\ Ev.calls >= 2 /\ Ev.distinct_outputs = Ev.calls
               /\ out' = [op |-> "Fresh"]
               /\ UNCHANGED << keys, issued, sigof, ser, fmt >>

\* a new, independent execution starts (several recorded runs are concatenated into one file)
TReset ==      /\ IsEv("Reset")
               /\ keys' = << >> /\ issued' = {} /\ sigof' = << >> /\ ser' = << >> /\ fmt' = << >> /\ out' = [op |-> "init"]

\* a remark of the harness about how the following lines were selected (no call of the library)
TNote ==       IsEv("Note") /\ UNCHANGED << keys, issued, sigof, ser, fmt, out >>

TNext == TReset \/ TNote \/ TKeyGenSeed \/ TKeyGenRng \/ TSign \/ TVerify \/ TSignInternal \/ TVerifyInternal \/ TDudect \/ TOsRng \/ TSer \/ TDeser \/ TDerive \/ TClone \/ TDrop
         \/ TFlipSweep \/ TDrawSweep \/ TFresh
TSpec == TInit /\ [][TNext]_tvars

Track == TLCSet(1, l)                \* CONSTRAINT: remembers the furthest position reached (-workers 1)
Accepted ==
  LET n == TLCGet(1) IN
  IF n = Len(Rec) + 1 THEN PrintT(<< "TRACE_ACCEPTED", Len(Rec) >>)
  ELSE PrintT(<< "TRACE_REJECTED_AT", n >>) /\ FALSE
=======================================================================
