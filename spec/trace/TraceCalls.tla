---------------------------- MODULE TraceCalls ----------------------------
(* C13: every public call returns.  The API state machine (spec/API.tla) has an action   *)
(* for every public call and none of them panics, so a class of calls is accepted iff    *)
(* every call of the class returned (a value or an error).  Events are per-class tallies *)
(* recorded by the harness around catch_unwind, with the first panicking inputs attached.*)
EXTENDS Integers, Sequences, TLC, Json, IOUtils
Rec == ndJsonDeserialize(IOEnv.TRACE)
VARIABLES tr, l, bad, calls
vars == << tr, l, bad, calls >>
View == l
Init == tr = Rec /\ l = 1 /\ bad = << >> /\ calls = 0
Ev == tr[l]
Ops == {"verify", "sign+verify", "sk.try_from_bytes", "sk.into_bytes", "sk.get_public_key", "sk.try_sign", "sk._internal_sign",
        "keygen", "dudect_keygen_sign_with_rng"}
Next == /\ l <= Len(tr) /\ Ev.ev = "Calls"
        /\ l' = l + 1 /\ UNCHANGED tr /\ calls' = calls + Ev.count
        /\ IF Ev.op \in Ops /\ Ev.count > 0 /\ Ev.panics = << >> THEN bad' = bad
           ELSE PrintT(<< "MISMATCH", l, Ev.op, Ev.class >>) /\ bad' = Append(bad, l)
Done == /\ l = Len(tr) + 1 /\ PrintT(<< "TRACE_DONE", Len(tr), "judged", calls, "mismatches", bad >>)
        /\ l' = l + 1 /\ UNCHANGED << tr, bad, calls >>
Spec == Init /\ [][Next \/ Done]_vars
=======================================================================
