---------------------------- MODULE TraceScalar ----------------------------
(* C15: recorded evaluations of the library's coefficient-level functions and          *)
(* reductions, judged by TLC from the DEFINITIONS (Rounding.tla, Codec.tla, Field.tla). *)
(* Events whose parameters (gamma2, eta) are not those of this configuration are        *)
(* skipped.  64-bit arguments arrive as limbs (hi, two 16-bit halves of the low word)   *)
(* and are judged modulo q with MulMod, so nothing leaves TLC's 32-bit integers.        *)
EXTENDS Codec, Json, IOUtils

Rec == ndJsonDeserialize(IOEnv.TRACE)
VARIABLES tr, l, bad, judged
vars == << tr, l, bad, judged >>
View == l
Init == tr = Rec /\ l = 1 /\ bad = << >> /\ judged = 0
Ev == tr[l]

R32 == 4193792                          \* 2^32 mod q
Cong(a, b) == (a - b) % Q = 0

ScalarOK(e) ==
  CASE e.fn = "power2round"      -> << e.got[1], e.got[2] >> = Power2Round(e.x)
    [] e.fn = "decompose"        -> << e.got[1], e.got[2] >> = Decompose(e.x % Q)
    [] e.fn = "high_bits"        -> e.got = HighBits(e.x % Q)
    [] e.fn = "low_bits"         -> e.got = LowBits(e.x % Q)
    [] e.fn = "use_hint"         -> e.got = UseHint(e.y, e.x % Q)
    [] e.fn = "make_hint"        -> e.got = MakeHint(e.x % Q, e.y % Q)          \* x = z, y = r
    [] e.fn = "center_mod"       -> e.got = ModPM(e.x, Q)
    [] e.fn = "partial_reduce32" -> Cong(e.got, e.x) /\ e.got > -Q /\ e.got < Q
    [] e.fn = "full_reduce32"    -> e.got = e.x % Q
    [] e.fn = "coeff3"           -> e.got = CoeffFromThreeBytes(e.x % 256, (e.x \div 256) % 256, e.x \div 65536)
    [] e.fn = "halfbyte"         -> e.got = CoeffFromHalfByte(e.x)
    [] OTHER -> FALSE
Mine(e) == (e.g2 = 0 \/ e.g2 = GAMMA2) /\ (e.eta = 0 \/ e.eta = ETA \/ e.fn # "halfbyte")
MontOK(e) == LET amod == (MulMod(e.hi % Q, R32) + ((MulMod(e.lh, 65536) + e.ll) % Q)) % Q
             IN e.got > -Q /\ e.got < Q /\ MulMod(e.got % Q, R32) = amod
PR64OK(e) == e.got > -2 * Q /\ e.got < 2 * Q /\ (e.got % Q) = MulMod(e.x % Q, R32)

Judge(ok) == /\ l' = l + 1 /\ UNCHANGED tr /\ judged' = judged + 1
             /\ IF ok THEN bad' = bad ELSE PrintT(<< "MISMATCH", l, Ev.ev, Ev >>) /\ bad' = Append(bad, l)
Skip == l' = l + 1 /\ UNCHANGED << tr, bad, judged >>
Next == /\ l <= Len(tr)
        /\ \/ Ev.ev = "Scalar" /\ Mine(Ev) /\ Judge(ScalarOK(Ev))
           \/ Ev.ev = "Scalar" /\ ~Mine(Ev) /\ Skip
           \/ Ev.ev = "Mont" /\ Judge(MontOK(Ev))
           \/ Ev.ev = "PR64" /\ Judge(PR64OK(Ev))
Done == /\ l = Len(tr) + 1 /\ PrintT(<< "TRACE_DONE", Len(tr), "judged", judged, "mismatches", bad >>)
        /\ l' = l + 1 /\ UNCHANGED << tr, bad, judged >>
Spec == Init /\ [][Next \/ Done]_vars
=======================================================================
