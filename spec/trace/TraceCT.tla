---------------------------- MODULE TraceCT ----------------------------
(* C14: secret independence as a 2-safety property, checked by SELF-COMPOSITION over    *)
(* recorded executions.  An observation of a run is the sequence of digests of           *)
(* consecutive blocks of its (instruction address, load/store address) stream, recorded  *)
(* by valgrind-lackey on the compiled artefact.  Runs are grouped by their PUBLIC inputs  *)
(* (the probe, the parameter set or kernel, the fixed message); within a group only the   *)
(* secret input (RNG output / coefficient vector) varies.  The specification steps the    *)
(* runs of a group in lockstep and requires obs[r1] = obs[r2] for all runs r1, r2; the    *)
(* first differing block is reported.  The CTEST control skeleton (ImplCT) is checked as  *)
(* well: exactly one rejection-loop attempt for every secret.                             *)
EXTENDS Integers, Sequences, TLC, Json, IOUtils
Rec == ndJsonDeserialize(IOEnv.TRACE)
VARIABLES tr, l, ref, bad, runs
vars == << tr, l, ref, bad, runs >>
View == l
Init == tr = Rec /\ l = 1 /\ ref = << >> /\ bad = << >> /\ runs = 0
Ev == tr[l]
\* first position where two sequences differ (0 = equal)
FirstDiff(a, b) == IF a = b THEN 0
                   ELSE LET n == IF Len(a) < Len(b) THEN Len(a) ELSE Len(b)
                            d == { i \in 1 .. n : a[i] # b[i] }
                        IN IF d = {} THEN n + 1 ELSE CHOOSE i \in d : \A j \in d : i <= j
Ext(f, k, v) == [x \in DOMAIN f \cup {k} |-> IF x = k THEN v ELSE f[x]]
Run == /\ l <= Len(tr) /\ Ev.ev = "CtRun"
       /\ l' = l + 1 /\ UNCHANGED tr /\ runs' = runs + 1
       /\ IF Ev.group \notin DOMAIN ref
          THEN ref' = Ext(ref, Ev.group, [blocks |-> Ev.blocks, nlines |-> Ev.nlines, input |-> Ev.input]) /\ bad' = bad
          ELSE LET d == FirstDiff(ref[Ev.group].blocks, Ev.blocks) IN
               /\ ref' = ref
               /\ IF d = 0 /\ ref[Ev.group].nlines = Ev.nlines THEN bad' = bad
                  ELSE /\ PrintT(<< "MISMATCH", l, Ev.group, [first_differing_block |-> d, input_a |-> ref[Ev.group].input, input_b |-> Ev.input,
                                                          nlines_a |-> ref[Ev.group].nlines, nlines_b |-> Ev.nlines] >>)
                       /\ bad' = Append(bad, l)
\* ImplCT (a): in constant-time test mode the rejection loop takes exactly one attempt, whatever the secrets
Skeleton == /\ l <= Len(tr) /\ Ev.ev = "CtSkeleton"
            /\ l' = l + 1 /\ UNCHANGED << tr, ref >> /\ runs' = runs + 1
            /\ IF Ev.attempts = 1 /\ Ev.ok THEN bad' = bad
               ELSE PrintT(<< "MISMATCH", l, "skeleton", Ev >>) /\ bad' = Append(bad, l)
Done == /\ l = Len(tr) + 1 /\ PrintT(<< "TRACE_DONE", Len(tr), "judged", runs, "mismatches", bad >>)
        /\ l' = l + 1 /\ UNCHANGED << tr, ref, bad, runs >>
Spec == Init /\ [][Run \/ Skeleton \/ Done]_vars
=======================================================================
