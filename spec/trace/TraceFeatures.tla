---------------------------- MODULE TraceFeatures ----------------------------
(* C17: one event per built configuration; accepted iff every one of the 28              *)
(* configurations of MC_Features is present exactly once, each built without warnings as  *)
(* a no_std crate (no undefined std symbols in the library, and a freestanding no_std consumer with its own panic handler compiles against it), the probe that references    *)
(* exactly the items of the model compiled, every negative probe failed to compile, and   *)
(* every enabled set's behaviour digest equals the default configuration's.               *)
EXTENDS Integers, FiniteSets, Sequences, TLC, Json, IOUtils
Rec == ndJsonDeserialize(IOEnv.TRACE)
Key(e) == << e.sets, e.rng, e.dudect >>
AllKeys == { << << a, b, c >>, r, d >> : a \in {0, 1}, b \in {0, 1}, c \in {0, 1}, r \in BOOLEAN, d \in BOOLEAN } \ { << << 0, 0, 0 >>, r, d >> : r \in BOOLEAN, d \in BOOLEAN }
Builds == { Rec[i] : i \in { j \in 1 .. Len(Rec) : Rec[j].ev = "Build" } }
DefaultB == CHOOSE e \in Builds : Key(e) = << << 1, 1, 1 >>, TRUE, FALSE >>
SetNames == << "44", "65", "87" >>
BuildOK(e) ==
  /\ e.lib_ok /\ e.warnings = 0 /\ e.std_symbols = 0 /\ e.nostd_consumer_ok /\ e.probe_ok
  /\ \A i \in 1 .. 3 : (e.sets[i] = 1) <=> (SetNames[i] \in DOMAIN e.digests)
  \* ordinary behaviour: equal to the DEFAULT configuration's, in every configuration
  /\ \A i \in 1 .. 3 : e.sets[i] = 1 => e.digests[SetNames[i]] = DefaultB.digests[SetNames[i]]
  \* the constant-time test entry point (only with dudect): equal to the full dudect configuration's
  /\ e.dudect => \A i \in 1 .. 3 : e.sets[i] = 1 =>
        \E b \in Builds : Key(b) = << << 1, 1, 1 >>, TRUE, TRUE >> /\ SetNames[i] \in DOMAIN e.ct_digests
                           /\ e.ct_digests[SetNames[i]] = b.ct_digests[SetNames[i]]
  /\ ~e.dudect => e.ct_digests = << >>
  /\ \A n \in DOMAIN e.negative : e.negative[n] = "rejected"
VARIABLES done
Init == done = FALSE
Next == ~done /\ done' = TRUE
Spec == Init /\ [][Next]_done
Bad == { Key(e) : e \in { b \in Builds : ~BuildOK(b) } }
Accepted ==
  /\ { Key(e) : e \in Builds } = AllKeys /\ Cardinality(Builds) = 28
  /\ IF Bad = {} THEN PrintT(<< "TRACE_DONE", Len(Rec), "judged", Cardinality(Builds), "mismatches", << >> >>)
     ELSE PrintT(<< "FEATURES_BAD", Bad >>) /\ FALSE
=======================================================================
