---------------------------- MODULE TraceF ----------------------------
(* Trace validation with Layer F as the judge: every recorded call of the real      *)
(* library (key generation, internal and external signing, internal and external    *)
(* verification, message formatting) is recomputed by TLC from the TLA+              *)
(* transcription of FIPS 204 and the recorded result must equal the specification's. *)
(* One action per stage of each algorithm; the rejection loop of Algorithm 7 is one  *)
(* group of actions per attempt.  A mismatch is recorded (and printed) and the rest  *)
(* of the trace is still checked.                                                    *)
EXTENDS MLDSA

Rec == ndJsonDeserialize(IOEnv.TRACE)

VARIABLES tr,     \* the trace (bound once; hidden from the fingerprint by the VIEW)
          l,      \* index of the event being judged
          pc,     \* stage inside the current event
          st,     \* stage record
          step,   \* number of actions taken (makes every state distinct under the VIEW)
          bad     \* indices of mismatching events
vars == << tr, l, pc, st, step, bad >>
View == << l, pc, step >>

Init == /\ tr = Rec /\ l = 1 /\ pc = 0 /\ st = [x |-> 0] /\ step = 0 /\ bad = << >>

Ev == tr[l]
Is(e) == l <= Len(tr) /\ Ev.ev = e
Go(k, k2, v) == /\ pc = k /\ pc' = k2 /\ st' = v /\ step' = step + 1 /\ UNCHANGED << tr, l, bad >>
\* finish the current event: ok = the recorded observation equals the specification's
Finish(k, ok, info) ==
  /\ pc = k /\ pc' = 0 /\ st' = [x |-> 0] /\ step' = step + 1 /\ l' = l + 1 /\ UNCHANGED tr
  /\ IF ok THEN bad' = bad
     ELSE /\ PrintT(<< "MISMATCH", l, Ev.ev, info >>) /\ bad' = Append(bad, l)

\* ---- KeyGen(xi) -> pk, sk                                        (Algorithm 6)
KeyGenEv ==
  /\ Is("KeyGen")
  /\ \/ Go(0, 1, KG0(Ev.xi))
     \/ Go(1, 2, KG1(st))
     \/ Go(2, 3, KG2(st))
     \/ Finish(3, st.pk = Ev.pk /\ st.sk = Ev.sk,
               [pk_equal |-> st.pk = Ev.pk, sk_equal |-> st.sk = Ev.sk])

\* ---- SignInternal(sk, M', rnd) -> sig, attempts                  (Algorithm 7)
\* ---- Sign(sk, M, ctx, mode, rnd) -> ok, sig                      (Algorithms 2, 4)
SignMp == IF Ev.ev = "Sign" THEN FormatMsg(Ev.mode, Ev.ctx, Ev.m) ELSE Ev.mp
SignEv ==
  /\ Is("SignInternal") \/ Is("Sign")
  /\ \/ /\ Ev.ev = "Sign" /\ ~CtxOK(Ev.ctx)
        /\ Finish(0, Ev.ok = FALSE, [expected |-> "error: context longer than 255 bytes"])
     \/ /\ Ev.ev = "Sign" => CtxOK(Ev.ctx)
        /\ Go(0, 1, SG0(Ev.sk, SignMp, Ev.rnd))
     \/ Go(1, 2, SGA(st))
     \/ Go(2, 3, SGB(st))
     \/ /\ pc = 3 /\ Reject1(st)  /\ Go(3, 1, SGKeep(st))
     \/ /\ pc = 3 /\ ~Reject1(st) /\ Go(3, 4, SGC(st))
     \/ /\ pc = 4 /\ Reject2(st)  /\ Go(4, 1, SGKeep(st))
     \/ /\ pc = 4 /\ ~Reject2(st)
        /\ LET sg == SGEncode(st)
               okres == (Ev.ev = "Sign") => Ev.ok
               okatt == ("attempts" \in DOMAIN Ev) => Ev.attempts = st.att
           IN Finish(4, okres /\ sg = Ev.sig /\ okatt,
                     [sig_equal |-> sg = Ev.sig, attempts_spec |-> st.att, weight |-> st.wt])

\* ---- VerifyInternal(pk, M', sig) -> res                           (Algorithm 8)
\* ---- Verify(pk, M, sig, ctx, mode) -> res                         (Algorithms 3, 5)
VerifyMp == IF Ev.ev = "Verify" THEN FormatMsg(Ev.mode, Ev.ctx, Ev.m) ELSE Ev.mp
VerifyEv ==
  /\ Is("VerifyInternal") \/ Is("Verify")
  /\ \/ /\ Ev.ev = "Verify" /\ ~CtxOK(Ev.ctx)
        /\ Finish(0, Ev.res = FALSE, [expected |-> FALSE, why |-> "context longer than 255 bytes"])
     \/ /\ Ev.ev = "Verify" => CtxOK(Ev.ctx)
        /\ Go(0, 1, VF0(Ev.pk, Ev.sig))
     \/ /\ pc = 1 /\ VFEarly(st)
        /\ Finish(1, Ev.res = FALSE, [expected |-> FALSE, hint_ok |-> st.hok, znorm |-> st.zn])
     \/ /\ pc = 1 /\ ~VFEarly(st) /\ Go(1, 2, VF1(st, Ev.pk, VerifyMp))
     \/ Go(2, 3, VF2(st))
     \/ Go(3, 4, VF3(st))
     \/ Go(4, 5, VF4(st))
     \/ Finish(5, Ev.res = VFVerdict(st), [expected |-> VFVerdict(st), znorm |-> st.zn])

\* ---- Format(mode, ctx, M) -> M'      (the message representative the library hashes)
FormatEv ==
  /\ Is("Format")
  /\ Finish(0, FormatMsg(Ev.mode, Ev.ctx, Ev.m) = Ev.mp, [expected |-> FormatMsg(Ev.mode, Ev.ctx, Ev.m)])

\* ---- end of trace
DoneEv == /\ l = Len(tr) + 1 /\ pc = 0
          /\ PrintT(<< "TRACE_DONE", Len(tr), "mismatches", bad >>)
          /\ TLCSet(1, l)
          /\ pc' = 99 /\ step' = step + 1 /\ UNCHANGED << tr, l, st, bad >>

Next == KeyGenEv \/ SignEv \/ VerifyEv \/ FormatEv \/ DoneEv
Spec == Init /\ [][Next]_vars

\* every event was consumed (register 1 is written by DoneEv; needs -workers 1)
Accepted == TLCGet(1) = Len(Rec) + 1
=======================================================================
