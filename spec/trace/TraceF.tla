---------------------------- MODULE TraceF ----------------------------
(* Trace validation with Layer F as the judge: every recorded call of the real      *)
(* library (key generation, internal and external signing, internal and external    *)
(* verification, message formatting) is recomputed by TLC from the TLA+              *)
(* transcription of FIPS 204 and the recorded result must equal the specification's. *)
(* One action per stage of each algorithm; the rejection loop of Algorithm 7 is one  *)
(* group of actions per attempt.  A mismatch is recorded (and printed) and the rest  *)
(* of the trace is still checked.                                                    *)
EXTENDS MLDSA

Rec == ndJsonDeserialize(IOEnv.TRACE)

VARIABLES tr,     \* the trace (bound once; hidden from the fingerprint by the VIEW)
          l,      \* index of the event being judged
          pc,     \* stage inside the current event
          st,     \* stage record
          step,   \* number of actions taken (makes every state distinct under the VIEW)
          bad     \* indices of mismatching events
vars == << tr, l, pc, st, step, bad >>
View == << l, pc, step >>

Init == /\ tr = Rec /\ l = 1 /\ pc = 0 /\ st = [x |-> 0] /\ step = 0 /\ bad = << >>

Ev == tr[l]
Is(e) == l <= Len(tr) /\ Ev.ev = e
Go(k, k2, v) == /\ pc = k /\ pc' = k2 /\ st' = v /\ step' = step + 1 /\ UNCHANGED << tr, l, bad >>
\* finish the current event: ok = the recorded observation equals the specification's
Finish(k, ok, info) ==
  /\ pc = k /\ pc' = 0 /\ st' = [x |-> 0] /\ step' = step + 1 /\ l' = l + 1 /\ UNCHANGED tr
  /\ IF ok THEN bad' = bad
     ELSE /\ PrintT(<< "MISMATCH", l, Ev.ev, info >>) /\ bad' = Append(bad, l)

\* the only randomness request an operation may make: one fallible request for 32 bytes
OneDraw == << [m |-> "try_fill_bytes", n |-> 32] >>

\* ---- KeyGen(xi) -> pk, sk                                        (Algorithm 6)
KeyGenEv ==
  /\ Is("KeyGen")
  /\ \/ Go(0, 1, KG0(Ev.xi))
     \/ Go(1, 2, KG1(st))
     \/ Go(2, 3, KG2(st))
     \/ Finish(3, st.pk = Ev.pk /\ st.sk = Ev.sk /\ (("rnglog" \in DOMAIN Ev) => Ev.rnglog = OneDraw),
               [pk_equal |-> st.pk = Ev.pk, sk_equal |-> st.sk = Ev.sk])

\* ---- KeyGenLite: everything of Algorithm 6 except the lattice product (rho, K, tr, s1, s2, lengths)
KGLite(xi, pk, sk) ==
  LET hh   == H(xi \o << KK, LL >>, 128)
      rho  == SubSeq(hh, 1, 32)
      es   == ExpandS(SubSeq(hh, 33, 96))
      len1 == NB * ETABITS
      sec  == CatF(TLCEval([i \in 0 .. LL - 1 |-> TLCEval(BitPack(es.s1[i], ETA, ETA))]), 0, LL)
              \o CatF(TLCEval([i \in 0 .. KK - 1 |-> TLCEval(BitPack(es.s2[i], ETA, ETA))]), 0, KK)
  IN [len   |-> Len(pk) = PKLEN /\ Len(sk) = SKLEN,
      rho   |-> SubSeq(pk, 1, 32) = rho /\ SubSeq(sk, 1, 32) = rho,
      K     |-> SubSeq(sk, 33, 64) = SubSeq(hh, 97, 128),
      tr    |-> SubSeq(sk, 65, 128) = H(pk, 64),
      short |-> SubSeq(sk, 129, 128 + (LL + KK) * len1) = sec]
KeyGenLiteEv ==
  /\ Is("KeyGenLite")
  /\ \/ Go(0, 1, KGLite(Ev.xi, Ev.pk, Ev.sk))
     \/ Finish(1, st.len /\ st.rho /\ st.K /\ st.tr /\ st.short, st)

\* ---- KeyGenBoth: the seeded and the RNG-driven entry point agree on the same 32 bytes,
\* and the RNG was asked exactly once, for exactly 32 bytes, through the fallible method
KeyGenBothEv ==
  /\ Is("KeyGenBoth")
  /\ Finish(0, Ev.pk = Ev.pk2 /\ Ev.sk = Ev.sk2 /\ Ev.rnglog = OneDraw,
            [pk_same |-> Ev.pk = Ev.pk2, sk_same |-> Ev.sk = Ev.sk2, rnglog |-> Ev.rnglog])

\* ---- SignInternal(sk, M', rnd) -> sig, attempts                  (Algorithm 7)
\* ---- Sign(sk, M, ctx, mode, rnd) -> ok, sig                      (Algorithms 2, 4)
SignMp == IF Ev.ev = "Sign" THEN FormatMsg(Ev.mode, Ev.ctx, Ev.m) ELSE Ev.mp
SignEv ==
  /\ Is("SignInternal") \/ Is("Sign")
  /\ \/ /\ Ev.ev = "Sign" /\ ~CtxOK(Ev.ctx)
        /\ Finish(0, Ev.ok = FALSE, [expected |-> "error: context longer than 255 bytes"])
     \/ /\ Ev.ev = "Sign" => CtxOK(Ev.ctx)
        /\ Go(0, 1, SG0(Ev.sk, SignMp, Ev.rnd))
     \/ Go(1, 2, SGA(st))
     \/ Go(2, 3, SGB(st))
     \/ /\ pc = 3 /\ Reject1(st)  /\ Go(3, 1, SGKeep(st))
     \/ /\ pc = 3 /\ ~Reject1(st) /\ Go(3, 4, SGC(st))
     \/ /\ pc = 4 /\ Reject2(st)  /\ Go(4, 1, SGKeep(st))
     \/ /\ pc = 4 /\ ~Reject2(st)
        /\ LET sg == SGEncode(st)
               okres == (Ev.ev = "Sign") => Ev.ok
               okatt == ("attempts" \in DOMAIN Ev) => Ev.attempts = st.att
               okrng == ("rnglog" \in DOMAIN Ev) => Ev.rnglog = OneDraw
           IN Finish(4, okres /\ sg = Ev.sig /\ okatt /\ okrng,
                     [sig_equal |-> sg = Ev.sig, attempts_spec |-> st.att, weight |-> st.wt])

\* ---- VerifyInternal(pk, M', sig) -> res                           (Algorithm 8)
\* ---- Verify(pk, M, sig, ctx, mode) -> res                         (Algorithms 3, 5)
\* the call returned (no "panic" field) and returned v
Returned(v) == ("res" \in DOMAIN Ev) /\ Ev.res = v
VerifyMp == IF Ev.ev = "Verify" THEN FormatMsg(Ev.mode, Ev.ctx, Ev.m) ELSE Ev.mp
VerifyEv ==
  /\ Is("VerifyInternal") \/ Is("Verify")
  /\ \/ /\ Ev.ev = "Verify" /\ ~CtxOK(Ev.ctx)
        /\ Finish(0, Returned(FALSE), [expected |-> FALSE, why |-> "context longer than 255 bytes"])
     \/ /\ Ev.ev = "Verify" => CtxOK(Ev.ctx)
        /\ Go(0, 1, VF0(Ev.pk, Ev.sig))
     \/ /\ pc = 1 /\ VFEarly(st)
        /\ Finish(1, Returned(FALSE), [expected |-> FALSE, hint_ok |-> st.hok, znorm |-> st.zn])
     \/ /\ pc = 1 /\ ~VFEarly(st) /\ Go(1, 2, VF1(st, Ev.pk, VerifyMp))
     \/ Go(2, 3, VF2(st))
     \/ Go(3, 4, VF3(st))
     \/ Go(4, 5, VF4(st))
     \/ Finish(5, Returned(VFVerdict(st)), [expected |-> VFVerdict(st), znorm |-> st.zn])

\* ---- Format(mode, ctx, M) -> M'      (the message representative the library hashes)
FormatEv ==
  /\ Is("Format")
  /\ Finish(0, FormatMsg(Ev.mode, Ev.ctx, Ev.m) = Ev.mp, [expected |-> FormatMsg(Ev.mode, Ev.ctx, Ev.m)])

\* ---- SignFactor: Sign = Sign_internal o FormatMsg (Algorithms 2, 4): the external call equals the
\* internal one on the M' that the SPECIFICATION assigns to (mode, ctx, M); one 32-byte draw
SignFactorEv ==
  /\ Is("SignFactor")
  /\ LET mp == FormatMsg(Ev.mode, Ev.ctx, Ev.m)
         okv == ("ver_ext" \in DOMAIN Ev) => (Ev.ver_ext /\ Ev.ver_int)       \* and Verify = Verify_internal o FormatMsg accepts it
     IN Finish(0, Ev.ok /\ mp = Ev.mp /\ Ev.ext = Ev.int /\ Ev.rnglog = OneDraw /\ okv,
               [mp_equal |-> mp = Ev.mp, ext_equals_int |-> Ev.ext = Ev.int, rnglog |-> Ev.rnglog, verifies |-> okv])

\* ---- SignAttempts: the per-attempt log of one signing call (hook in the rejection loop): the
\* decision of every attempt is the one Algorithm 7 lines 23 and 28 prescribe for the logged norms
\* and hint weight, kappa advances by l per attempt, and only the last attempt is accepted.
\* (Cheap: no lattice arithmetic, so it runs on thousands of signatures and catches boundary slips
\* on the rare paths; the rare ones are also recomputed in full as SignInternal events.)
AttemptOK(a, i, n) ==
  LET kappa == a[1]  zn == a[2]  r0n == a[3]  ct0n == a[4]  wt == a[5]  dec == a[6]
      rej1 == zn >= GAMMA1 - BETA \/ r0n >= GAMMA2 - BETA
  IN /\ kappa = (i - 1) * LL
     /\ IF rej1 THEN dec = 1
        ELSE IF ct0n >= GAMMA2 \/ wt > OMEGA THEN dec = 2 ELSE dec = 0
     /\ (dec = 0) <=> (i = n)
SignAttemptsEv ==
  /\ Is("SignAttempts")
  /\ LET n == Len(Ev.attempts)
         badi == { i \in 1 .. n : ~AttemptOK(Ev.attempts[i], i, n) }
     IN Finish(0, n >= 1 /\ badi = {}, [bad_attempts |-> badi, attempts |-> Ev.attempts])

\* ---- Sampler: one output of a pseudorandom sampler of Section 7.3 (through the hooks)
SamplerOut(f, seed) ==
  CASE f = "rej_bounded"    -> RejBoundedPoly(seed)
    [] f = "rej_ntt"        -> RejNTTPoly(seed)
    [] f = "sample_in_ball" -> CenterPoly(SampleInBall(seed))
    [] f = "expand_mask"    -> BitUnpack(H(seed, NB * ZBITS), GAMMA1 - 1, GAMMA1)
SamplerEv ==
  /\ Is("Sampler")
  /\ \/ Go(0, 1, [p |-> SamplerOut(Ev.fn, Ev.seed)])
     \/ Finish(1, \A n \in Idx : Ev.out[n + 1] = st.p[n], [fn |-> Ev.fn, xof_bytes |-> Ev.xof_bytes])
\* ---- SweepF: a native sweep whose every failing case is also in this trace as a full event
SweepFEv == Is("SweepF") /\ Finish(0, Ev.cases > 0 /\ Ev.failures = 0, [what |-> Ev.what, failures |-> Ev.failures])

\* ---- Same: two observations that the specification says are one value (determinism)
SameEv == Is("Same") /\ Finish(0, Ev.a = Ev.b, [what |-> Ev.what])

\* ---- Panic: no algorithm of FIPS 204 panics; a recorded panic never matches
PanicEv == Is("Panic") /\ Finish(0, FALSE, [call |-> Ev.call, loc |-> Ev.loc, msg |-> Ev.msg])

\* ---- end of trace
DoneEv == /\ l = Len(tr) + 1 /\ pc = 0
          /\ PrintT(<< "TRACE_DONE", Len(tr), "mismatches", bad >>)
          /\ TLCSet(1, l)
          /\ pc' = 99 /\ step' = step + 1 /\ UNCHANGED << tr, l, st, bad >>

Next == KeyGenEv \/ KeyGenLiteEv \/ KeyGenBothEv \/ SignEv \/ SignFactorEv \/ SignAttemptsEv \/ SamplerEv \/ SweepFEv \/ SameEv \/ VerifyEv \/ FormatEv
        \/ PanicEv \/ DoneEv
Spec == Init /\ [][Next]_vars

\* every event was consumed (register 1 is written by DoneEv; needs -workers 1)
Accepted == TLCGet(1) = Len(Rec) + 1
=======================================================================
