---------------------------- MODULE ScalarTables ----------------------------
(* Mechanism M3 (DESIGN 2.3): for every FIPS 204 function of one coefficient or a few  *)
(* bytes, a PIECEWISE-AFFINE description of its whole value table, stated in closed     *)
(* form from the parameters.  A piece [lo, hi, v1, v0, slope] says: for lo <= x <= hi   *)
(* the function returns << v1, v0 + slope * (x - lo) >> (v0 = Bot when the function     *)
(* returns "bottom").  MC_Scalar proves, exhaustively over the domain, that each        *)
(* description EQUALS the definition of Rounding.tla / Codec.tla; the harness then      *)
(* compares the Rust function with the description on EVERY element of the domain at     *)
(* native speed.  Both halves are exhaustive, so together they decide                    *)
(*     \A x : impl(x) = spec(x);                                                          *)
(* the table is only the transport.                                                      *)
EXTENDS Codec

Piece(lo, hi, v1, v0, slope) == [lo |-> lo, hi |-> hi, v1 |-> v1, v0 |-> v0, slope |-> slope]

\* Power2Round on 0..Q-1: r1 = k on (k*2^d - 2^(d-1), k*2^d + 2^(d-1)], r0 = r - k*2^d
P2RPieces ==
  LET H == 2^(D - 1)  S == 2^D  kmax == (Q - 1 + H - 1) \div S
  IN [k \in 0 .. kmax |-> Piece(MaxI(0, k * S - H + 1), MinI(Q - 1, k * S + H), k, MaxI(0, k * S - H + 1) - k * S, 1)]

\* Decompose on 0..Q-1: r1 = k on (k*2g - g, k*2g + g], except the top piece which is the corner (r1 = 0, r0 = r - q)
DecPieces ==
  LET G == GAMMA2
  IN [k \in 0 .. M2G |->
        IF k < M2G THEN Piece(MaxI(0, k * 2 * G - G + 1), k * 2 * G + G, k, MaxI(0, k * 2 * G - G + 1) - k * 2 * G, 1)
        ELSE Piece(M2G * 2 * G - G + 1, Q - 1, 0, (M2G * 2 * G - G + 1) - Q, 1)]

\* UseHint(1, r) on 0..Q-1: pieces split where r0 changes sign: (r1-1) mod m on r0 <= 0, (r1+1) mod m on r0 > 0
UH1Pieces ==
  LET G == GAMMA2
      lohalf(k) == Piece(MaxI(0, k * 2 * G - G + 1), k * 2 * G, (k - 1) % M2G, 0, 0)
      hihalf(k) == Piece(k * 2 * G + 1, k * 2 * G + G, (k + 1) % M2G, 0, 0)
      corner == Piece(M2G * 2 * G - G + 1, Q - 1, (0 - 1) % M2G, 0, 0)
  IN [i \in 0 .. 2 * M2G |-> IF i = 2 * M2G THEN corner ELSE IF i % 2 = 0 THEN lohalf(i \div 2) ELSE hihalf(i \div 2)]

\* mod+- q on 0..Q-1
CModPieces == << Piece(0, (Q - 1) \div 2, 0, 0, 1), Piece((Q - 1) \div 2 + 1, Q - 1, 0, (Q - 1) \div 2 + 1 - Q, 1) >>

\* CoeffFromThreeBytes on v = b0 + 2^8 b1 + 2^16 b2 in 0..2^24-1
C3Pieces == << Piece(0, Q - 1, 0, 0, 1), Piece(Q, 2^23 - 1, 0, Bot, 0),
               Piece(2^23, 2^23 + Q - 1, 0, 0, 1), Piece(2^23 + Q, 2^24 - 1, 0, Bot, 0) >>

\* CoeffFromHalfByte: the whole table
HalfByteTable == [b \in 0 .. 15 |-> CoeffFromHalfByte(b)]

\* look-up by bisection on the index (descriptions are sorted: see Tiles)
RECURSIVE Find(_, _, _, _)
Find(pieces, x, i, j) == IF i = j THEN i
                         ELSE LET m == (i + j) \div 2 IN IF x <= pieces[m].hi THEN Find(pieces, x, i, m) ELSE Find(pieces, x, m + 1, j)
EvalIn(pieces, x, first, last) ==
  LET p == pieces[Find(pieces, x, first, last)]
  IN IF p.lo <= x /\ x <= p.hi THEN << p.v1, IF p.v0 = Bot THEN Bot ELSE p.v0 + p.slope * (x - p.lo) >> ELSE << Bot, Bot >>
\* the pieces of a description tile lo..hi without gap or overlap (in index order)
Tiles(pieces, lo, hi, first, last) ==
  /\ pieces[first].lo = lo /\ pieces[last].hi = hi
  /\ \A i \in first .. last : pieces[i].lo <= pieces[i].hi
  /\ \A i \in first .. last - 1 : pieces[i + 1].lo = pieces[i].hi + 1
=======================================================================
