---------------------------- MODULE Codec ----------------------------
(* Section 7.1 / 7.2 of FIPS 204: Algorithms 9-28.  Byte strings are TLA+ sequences *)
(* of 0..255.  Two forms are given for the packers: the literal one through bit      *)
(* strings (Algorithms 9-13, suffix "Lit") and a direct one that TLC evaluates fast; *)
(* MC_Codec checks them equal on every input of a reduced instance.                  *)
EXTENDS Rounding, SequencesExt

\* ---- Algorithms 9-13 (literal)
IntegerToBits(x, a)  == [i \in 1 .. a |-> (x \div 2^(i - 1)) % 2]
RECURSIVE BitsToIntegerFrom(_, _, _)
BitsToIntegerFrom(y, i, a) == IF i > a THEN 0 ELSE y[i] * 2^(i - 1) + BitsToIntegerFrom(y, i + 1, a)
BitsToInteger(y, a)  == BitsToIntegerFrom(y, 1, a)
IntegerToBytes(x, a) == [i \in 1 .. a |-> (x \div 256^(i - 1)) % 256]
BytesToBits(z)       == [i \in 1 .. 8 * Len(z) |-> (z[((i - 1) \div 8) + 1] \div 2^((i - 1) % 8)) % 2]
BitsToBytes(y) ==
  [b \in 1 .. ((Len(y) + 7) \div 8) |->
     LET RECURSIVE S(_)
         S(t) == IF t = 8 THEN 0
                 ELSE (IF 8 * (b - 1) + t + 1 <= Len(y) THEN y[8 * (b - 1) + t + 1] * 2^t ELSE 0) + S(t + 1)
     IN S(0)]

\* ---- Algorithm 14, 15 ("Bot" = the standard's rejection symbol)
Bot == -1000000000
CoeffFromThreeBytes(b0, b1, b2) ==
  LET z == 65536 * (b2 % 128) + 256 * b1 + b0 IN IF z < Q THEN z ELSE Bot
CoeffFromHalfByte(b) ==
  IF ETA = 2 /\ b < 15 THEN 2 - (b % 5)
  ELSE IF ETA = 4 /\ b < 9 THEN 4 - b ELSE Bot

\* ---- direct packers: vals is a function Idx -> 0 .. 2^c - 1
Bit(bytes, i) == (bytes[(i \div 8) + 1] \div (2^(i % 8))) % 2          \* i is a 0-based bit index
PackBits(vals, c) ==
  [b \in 1 .. ((N * c) \div 8) |->
     LET RECURSIVE S(_)
         S(t) == IF t = 8 THEN 0
                 ELSE LET bi == (b - 1) * 8 + t
                      IN ((vals[bi \div c] \div 2^(bi % c)) % 2) * 2^t + S(t + 1)
     IN S(0)]
RECURSIVE BitsAt(_, _, _, _)
BitsAt(bytes, off, c, i) == IF i = c THEN 0 ELSE Bit(bytes, off + i) * 2^i + BitsAt(bytes, off, c, i + 1)
\* fields of c bits starting at byte offset off8 (0-based) of a longer string
UnpackBits(bytes, off8, c) == TLCEval([i \in Idx |-> BitsAt(bytes, off8 * 8 + i * c, c, 0)])

\* ---- Algorithms 16-19
SimpleBitPack(w, b)  == PackBits(w, BitLen(b))
BitPack(w, a, b)     == PackBits([n \in Idx |-> b - w[n]], BitLen(a + b))
SimpleBitUnpackAt(v, off8, b)  == UnpackBits(v, off8, BitLen(b))
BitUnpackAt(v, off8, a, b) == LET u == UnpackBits(v, off8, BitLen(a + b))
                              IN TLCEval([n \in Idx |-> b - u[n]])
SimpleBitUnpack(v, b) == SimpleBitUnpackAt(v, 0, b)
BitUnpack(v, a, b)    == BitUnpackAt(v, 0, a, b)

\* literal forms through bit strings
RECURSIVE CatBits(_, _, _)
CatBits(f, i, c) == IF i = N THEN << >> ELSE IntegerToBits(f[i], c) \o CatBits(f, i + 1, c)
SimpleBitPackLit(w, b) == BitsToBytes(CatBits(w, 0, BitLen(b)))
BitPackLit(w, a, b)    == BitsToBytes(CatBits([n \in Idx |-> b - w[n]], 0, BitLen(a + b)))
SimpleBitUnpackLit(v, b) ==
  LET c == BitLen(b)  z == BytesToBits(v)
  IN [i \in Idx |-> BitsToInteger(SubSeq(z, i * c + 1, i * c + c), c)]
BitUnpackLit(v, a, b) ==
  LET c == BitLen(a + b)  z == BytesToBits(v)
  IN [i \in Idx |-> b - BitsToInteger(SubSeq(z, i * c + 1, i * c + c), c)]

\* ---- Algorithm 20: h is a function 0..KK-1 -> (Idx -> {0,1}) with at most OMEGA ones
IdxSeq == [x \in 1 .. N |-> x - 1]
HintBitPack(h) ==
  LET ones(i) == SelectSeq(IdxSeq, LAMBDA j : h[i][j] # 0)
      RECURSIVE Build(_, _, _)
      Build(i, acc, cnts) == IF i = KK THEN << acc, cnts >>
                             ELSE LET a2 == acc \o ones(i) IN Build(i + 1, a2, Append(cnts, Len(a2)))
      b == Build(0, << >>, << >>)
  IN b[1] \o [x \in 1 .. (OMEGA - Len(b[1])) |-> 0] \o b[2]

\* ---- Algorithm 21, literal transcription (Index/First/while loop as folds).
\* Returns [ok, h]; ok = FALSE is the standard's "bottom".
HintBitUnpack(y) ==
  LET step(st, i) ==
        IF ~st.ok THEN st ELSE
        LET lim == y[OMEGA + i + 1] IN
        IF lim < st.idx \/ lim > OMEGA THEN [st EXCEPT !.ok = FALSE] ELSE
        LET inner == FoldLeft(LAMBDA s2, p :
                         IF ~s2.ok THEN s2
                         ELSE IF p > st.idx /\ y[p] >= y[p + 1] THEN [s2 EXCEPT !.ok = FALSE]
                         ELSE [s2 EXCEPT !.h[i][y[p + 1]] = 1],
                       st, [x \in 1 .. (lim - st.idx) |-> st.idx + x - 1])
        IN [inner EXCEPT !.idx = lim]
      r == FoldLeft(step, [ok |-> TRUE, idx |-> 0, h |-> [i \in 0 .. KK - 1 |-> [j \in Idx |-> 0]]],
                    [x \in 1 .. KK |-> x - 1])
      tailok == \A p \in (r.idx + 1) .. OMEGA : y[p] = 0
  IN [ok |-> r.ok /\ tailok, h |-> r.h]

\* A declarative characterisation of the well-formed hint sections, independent of
\* Algorithm 21 (used by MC_Codec and by the case generator):
\* counts are non-decreasing and <= OMEGA, indices strictly increase inside each
\* polynomial's slice, every byte after the last count is zero.
HintWellFormed(y) ==
  LET cnt(i) == IF i < 0 THEN 0 ELSE y[OMEGA + i + 1] IN
  /\ \A i \in 0 .. KK - 1 : cnt(i) >= cnt(i - 1) /\ cnt(i) <= OMEGA
  /\ \A i \in 0 .. KK - 1 : \A p \in (cnt(i - 1) + 2) .. cnt(i) : y[p - 1] < y[p]
  /\ \A p \in (cnt(KK - 1) + 1) .. OMEGA : y[p] = 0

\* ---- Algorithms 22-28
RECURSIVE CatF(_, _, _)
CatF(f, i, n) == IF i = n THEN << >> ELSE f[i] \o CatF(f, i + 1, n)
PkEncode(rho, t1) == rho \o CatF(TLCEval([i \in 0 .. KK - 1 |-> TLCEval(SimpleBitPack(t1[i], 2^T1BITS - 1))]), 0, KK)
PkDecode(pk) == [rho |-> SubSeq(pk, 1, 32),
                 t1  |-> TLCEval([i \in 0 .. KK - 1 |-> SimpleBitUnpackAt(pk, 32 + NB * T1BITS * i, 2^T1BITS - 1)])]
SkEncode(rho, K, tr, s1, s2, t0) ==
  rho \o K \o tr
      \o CatF(TLCEval([i \in 0 .. LL - 1 |-> TLCEval(BitPack(s1[i], ETA, ETA))]), 0, LL)
      \o CatF(TLCEval([i \in 0 .. KK - 1 |-> TLCEval(BitPack(s2[i], ETA, ETA))]), 0, KK)
      \o CatF(TLCEval([i \in 0 .. KK - 1 |-> TLCEval(BitPack(t0[i], 2^(D - 1) - 1, 2^(D - 1)))]), 0, KK)
SkDecode(sk) ==
  LET off1 == 128
      len1 == NB * ETABITS
      off2 == off1 + LL * len1
      off3 == off2 + KK * len1
  IN [rho |-> SubSeq(sk, 1, 32), K |-> SubSeq(sk, 33, 64), tr |-> SubSeq(sk, 65, 128),
      s1 |-> TLCEval([i \in 0 .. LL - 1 |-> BitUnpackAt(sk, off1 + len1 * i, ETA, ETA)]),
      s2 |-> TLCEval([i \in 0 .. KK - 1 |-> BitUnpackAt(sk, off2 + len1 * i, ETA, ETA)]),
      t0 |-> TLCEval([i \in 0 .. KK - 1 |-> BitUnpackAt(sk, off3 + NB * D * i, 2^(D - 1) - 1, 2^(D - 1))])]
\* the acceptance condition FIPS 204 attaches to skDecode ("may lie outside [-eta, eta] if malformed")
ShortOK(v, len) == \A i \in 0 .. len - 1 : \A n \in Idx : v[i][n] >= -ETA /\ v[i][n] <= ETA
SkAccept(sk) == LET d == SkDecode(sk) IN ShortOK(d.s1, LL) /\ ShortOK(d.s2, KK)

SigEncode(ct, z, h) ==
  ct \o CatF(TLCEval([i \in 0 .. LL - 1 |-> TLCEval(BitPack(z[i], GAMMA1 - 1, GAMMA1))]), 0, LL)
     \o HintBitPack(h)
SigDecode(sig) ==
  LET zlen == NB * ZBITS
      hu == HintBitUnpack(SubSeq(sig, CTLEN + zlen * LL + 1, Len(sig)))
  IN [ct |-> SubSeq(sig, 1, CTLEN),
      z  |-> TLCEval([i \in 0 .. LL - 1 |-> BitUnpackAt(sig, CTLEN + zlen * i, GAMMA1 - 1, GAMMA1)]),
      hok |-> hu.ok, h |-> hu.h]
W1Encode(w1) == CatF(TLCEval([i \in 0 .. KK - 1 |-> TLCEval(SimpleBitPack(w1[i], M2G - 1))]), 0, KK)
=======================================================================
