---------------------------- MODULE API ----------------------------
(* Layer A: the library as a state machine over key OBJECTS, with the guarantees a   *)
(* user relies on stated as the "ideal signature functionality":                      *)
(*   - a key object has a LINEAGE (the 32-byte seed it descends from, or "foreign"    *)
(*     for bytes the library never produced), a parameter set and a provenance;       *)
(*   - signing with a key of lineage x on (M, ctx, mode) with drawn randomness r      *)
(*     ISSUES one signature string, a function of exactly (set, x, M, ctx, mode, r);  *)
(*   - verification returns TRUE iff the context is at most 255 bytes long and the    *)
(*     exact tuple (signature string, set, lineage of the public key, M, ctx, mode)   *)
(*     was issued;                                                                    *)
(*   - serialisation is a function of (kind, set, lineage) and is injective;          *)
(*     deserialisation, derivation and cloning preserve lineage;                      *)
(*   - randomness is requested once, 32 bytes, through the fallible interface, and    *)
(*     a failed request produces an error and no object;                              *)
(*   - dropping a key zeroes its memory.                                              *)
(* The same actions are used (i) by MC_API, which explores a small universe           *)
(* exhaustively and emits behaviours for replay against the real library, and (ii) by *)
(* TraceAPI, which validates traces recorded from the real library.  Messages,        *)
(* contexts, draws, signatures and serialisations are opaque identities (in traces:   *)
(* the bytes themselves in hex, or length + SHAKE256 digest for long values).         *)
EXTENDS Integers, Sequences, FiniteSets, TLC

VARIABLES keys,    \* handle -> [kind, set, lin, prov, alive, mem]
          issued,  \* set of << sig, set, lin, msg, ctx, mode >>
          sigof,   \* << set, lin, msg, ctx, mode, draw >> -> sig      (determinism)
          ser,     \* << kind, set, lin >> -> bytes                     (canonical serialisation)
          out      \* last observable result (hidden from the fingerprint in MC by a VIEW)
avars == << keys, issued, sigof, ser, out >>

Sets  == {44, 65, 87}
AModes == {"pure", "SHA256", "SHA512", "SHAKE128"}
Faults == {"none", "err_before", "err_after"}
OneDraw == << [m |-> "try_fill_bytes", n |-> 32] >>       \* the only admissible RNG request log
NoDraw  == << >>

Handles == DOMAIN keys
Live(h) == h \in Handles /\ keys[h].alive
IsPk(h) == Live(h) /\ keys[h].kind = "pk"
IsSk(h) == Live(h) /\ keys[h].kind = "sk"
Seeded(x) == << "seed", x >>          \* lineage of keys generated from the 32 bytes x
Foreign(b) == << "foreign", b >>      \* lineage of a key deserialised from bytes nobody issued

NewKey(kind, set, lin, prov) == [kind |-> kind, set |-> set, lin |-> lin, prov |-> prov, alive |-> TRUE, mem |-> "live"]
Ext(f, k, v) == [x \in DOMAIN f \cup {k} |-> IF x = k THEN v ELSE f[x]]

AInit == /\ keys = << >> /\ issued = {} /\ sigof = << >> /\ ser = << >>
         /\ out = [op |-> "init"]

\* ------------------------------------------------------------------ key generation
\* Algorithm 1 / 6 from explicit seed bytes
KeyGenSeed(set, seed, hpk, hsk) ==
  /\ hpk \notin Handles /\ hsk \notin Handles /\ hpk # hsk
  /\ keys' = Ext(Ext(keys, hpk, NewKey("pk", set, Seeded(seed), "generated")), hsk, NewKey("sk", set, Seeded(seed), "generated"))
  /\ out' = [op |-> "KeyGenSeed", ok |-> TRUE]
  /\ UNCHANGED << issued, sigof, ser >>
\* Algorithm 1 with the caller's RNG: on a healthy RNG exactly the seeded function of the draw
KeyGenRng(set, draw, fault, hpk, hsk) ==
  /\ hpk \notin Handles /\ hsk \notin Handles /\ hpk # hsk
  /\ IF fault = "none"
     THEN /\ keys' = Ext(Ext(keys, hpk, NewKey("pk", set, Seeded(draw), "generated")), hsk, NewKey("sk", set, Seeded(draw), "generated"))
          /\ out' = [op |-> "KeyGenRng", ok |-> TRUE, rnglog |-> OneDraw]
     ELSE /\ keys' = keys
          /\ out' = [op |-> "KeyGenRng", ok |-> FALSE, rnglog |-> OneDraw]
  /\ UNCHANGED << issued, sigof, ser >>

\* ------------------------------------------------------------------ signing (Algorithms 2, 4)
SigKey(h, msg, ctx, mode, draw) == << keys[h].set, keys[h].lin, msg, ctx, mode, draw >>
\* `sig` is the issued string; determinism and injectivity tie it to SigKey
Sign(h, msg, ctx, ctxlen, mode, draw, fault, sig) ==
  /\ IsSk(h) /\ mode \in AModes
  /\ IF ctxlen > 255
     THEN /\ out' = [op |-> "Sign", ok |-> FALSE, rnglog |-> NoDraw]       \* rejected before any randomness is drawn
          /\ UNCHANGED << issued, sigof >>
     ELSE IF fault # "none"
     THEN /\ out' = [op |-> "Sign", ok |-> FALSE, rnglog |-> OneDraw]
          /\ UNCHANGED << issued, sigof >>
     ELSE LET k == SigKey(h, msg, ctx, mode, draw) IN
          /\ k \in DOMAIN sigof => sigof[k] = sig                          \* a function of (key, M, ctx, mode, rnd) only
          /\ \A k2 \in DOMAIN sigof : sigof[k2] = sig => k2 = k             \* and injective (else a SHAKE collision)
          /\ sigof' = Ext(sigof, k, sig)
          /\ issued' = issued \cup { << sig, keys[h].set, keys[h].lin, msg, ctx, mode >> }
          /\ out' = [op |-> "Sign", ok |-> TRUE, rnglog |-> OneDraw]
  /\ UNCHANGED << keys, ser >>

\* ------------------------------------------------------------------ verification (Algorithms 3, 5)
Verdict(h, msg, ctx, ctxlen, mode, sig) ==
  /\ ctxlen <= 255
  /\ << sig, keys[h].set, keys[h].lin, msg, ctx, mode >> \in issued
Verify(h, msg, ctx, ctxlen, mode, sig) ==
  /\ IsPk(h) /\ mode \in AModes
  /\ out' = [op |-> "Verify", res |-> Verdict(h, msg, ctx, ctxlen, mode, sig)]
  /\ UNCHANGED << keys, issued, sigof, ser >>

\* ------------------------------------------------------------------ serialisation
SerKey(h) == << keys[h].kind, keys[h].set, keys[h].lin >>
Serialise(h, bytes) ==
  /\ Live(h)
  /\ SerKey(h) \in DOMAIN ser => ser[SerKey(h)] = bytes                     \* canonical: one string per (kind, set, lineage)
  /\ keys[h].lin[1] = "foreign" => bytes = keys[h].lin[2]                   \* a deserialised foreign string serialises back to itself
  /\ \A k2 \in DOMAIN ser : ser[k2] = bytes => k2 = SerKey(h)               \* injective
  /\ ser' = Ext(ser, SerKey(h), bytes)
  /\ out' = [op |-> "Serialise", bytes |-> bytes]
  /\ UNCHANGED << keys, issued, sigof >>
\* lineage of a byte string: the key it was serialised from, else foreign
LineageOf(kind, set, bytes) ==
  IF \E k \in DOMAIN ser : ser[k] = bytes /\ k[1] = kind /\ k[2] = set
  THEN (CHOOSE k \in DOMAIN ser : ser[k] = bytes /\ k[1] = kind /\ k[2] = set)[3]
  ELSE Foreign(bytes)
\* `accept` is FIPS 204's acceptance of the string (always TRUE for public keys; for private keys
\* the s1/s2 range rule, decided by Layer F / C10); a rejected string creates no object
Deserialise(kind, set, bytes, accept, h) ==
  /\ h \notin Handles
  /\ IF accept THEN keys' = Ext(keys, h, NewKey(kind, set, LineageOf(kind, set, bytes), "deserialised"))
               ELSE keys' = keys
  /\ out' = [op |-> "Deserialise", ok |-> accept]
  /\ UNCHANGED << issued, sigof, ser >>
Derive(hsk, hpk) ==
  /\ IsSk(hsk) /\ hpk \notin Handles
  /\ keys' = Ext(keys, hpk, NewKey("pk", keys[hsk].set, keys[hsk].lin, "derived"))
  /\ out' = [op |-> "Derive"]
  /\ UNCHANGED << issued, sigof, ser >>
Clone(h, h2) ==
  /\ Live(h) /\ h2 \notin Handles
  /\ keys' = Ext(keys, h2, [keys[h] EXCEPT !.prov = "cloned"])
  /\ out' = [op |-> "Clone"]
  /\ UNCHANGED << issued, sigof, ser >>
Drop(h) ==
  /\ Live(h)
  /\ keys' = [keys EXCEPT ![h].alive = FALSE, ![h].mem = "zero"]
  /\ out' = [op |-> "Drop", nonzero_after |-> 0]
  /\ UNCHANGED << issued, sigof, ser >>

\* ------------------------------------------------------------------ user-facing guarantees
TypeOK ==
  /\ \A h \in Handles : keys[h].kind \in {"pk", "sk"} /\ keys[h].set \in Sets /\ keys[h].alive \in BOOLEAN
  /\ \A t \in issued : t[2] \in Sets /\ t[6] \in AModes
\* C16: a dropped key holds no key material
DroppedIsZero == \A h \in Handles : ~keys[h].alive => keys[h].mem = "zero"
\* C01 / C11: whatever the provenance of the two key objects, an issued tuple verifies under every
\* live public key of the signer's lineage and set
HonestVerifies ==
  \A t \in issued : \A h \in Handles :
     (IsPk(h) /\ keys[h].set = t[2] /\ keys[h].lin = t[3]) => Verdict(h, t[4], t[5], 0, t[6], t[1])
\* C03-lite: one signature string per (set, lineage, M, ctx, mode, rnd)
SigFunctional == \A k1, k2 \in DOMAIN sigof : sigof[k1] = sigof[k2] => k1 = k2
\* C09: one serialisation per (kind, set, lineage), injective
SerInjective == \A k1, k2 \in DOMAIN ser : ser[k1] = ser[k2] => k1 = k2
=======================================================================
