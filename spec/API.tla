---------------------------- MODULE API ----------------------------
(* Layer A: the library as a state machine over key OBJECTS, with the guarantees a   *)
(* user relies on stated as the "ideal signature functionality":                      *)
(*   - a key object has a LINEAGE (the 32-byte seed it descends from, or "foreign"    *)
(*     for bytes the library never produced), a parameter set and a provenance;       *)
(*   - (M, ctx, mode) determine the formatted message M' (Algorithms 2-5), and the    *)
(*     map is injective (MC_Format); the internal interface takes M' directly;        *)
(*   - signing with a key of lineage x on M' with randomness r ISSUES one signature   *)
(*     string, a function of exactly (set, x, M', r) -- the SAME function for the     *)
(*     external and the internal interface;                                           *)
(*   - verification returns TRUE iff the context is at most 255 bytes long (external  *)
(*     interface) and the exact tuple (signature string, set, lineage of the public   *)
(*     key, M') was issued, through either interface;                                 *)
(*   - serialisation is a function of (kind, set, lineage) and is injective;          *)
(*     deserialisation, derivation and cloning preserve lineage;                      *)
(*   - randomness is requested once, 32 bytes, through the fallible interface, and    *)
(*     a failed request produces an error and no object;                              *)
(*   - dropping a key zeroes its memory.                                              *)
(* The same actions are used (i) by MC_API, which explores a small universe           *)
(* exhaustively and emits behaviours for replay against the real library, and (ii) by *)
(* TraceAPI, which validates traces recorded from the real library.  Messages,        *)
(* contexts, draws, signatures and serialisations are opaque identities (in traces:   *)
(* the bytes themselves in hex, or length + SHAKE256 digest for long values).         *)
EXTENDS Integers, Sequences, FiniteSets, TLC

VARIABLES keys,    \* handle -> [kind, set, lin, prov, alive, mem]
          issued,  \* set of << sig, set, lin, mp >>                    (mp: identity of the formatted message M')
          sigof,   \* << set, lin, mp, draw >> -> sig                   (determinism, one function for both interfaces)
          ser,     \* << kind, set, lin >> -> bytes                     (canonical serialisation)
          fmt,     \* << mode, ctx, msg >> -> mp                        (message formatting: a function, injective)
          out      \* last observable result (hidden from the fingerprint in MC by a VIEW)
avars == << keys, issued, sigof, ser, fmt, out >>

Sets  == {44, 65, 87}
AModes == {"pure", "SHA256", "SHA512", "SHAKE128"}
Faults == {"none", "err_before", "err_after"}
OneDraw == << [m |-> "try_fill_bytes", n |-> 32] >>       \* the only admissible RNG request log
NoDraw  == << >>

Handles == DOMAIN keys
Live(h) == h \in Handles /\ keys[h].alive
IsPk(h) == Live(h) /\ keys[h].kind = "pk"
IsSk(h) == Live(h) /\ keys[h].kind = "sk"
Seeded(x) == << "seed", x >>          \* lineage of keys generated from the 32 bytes x
Foreign(b) == << "foreign", b >>      \* lineage of a key deserialised from bytes nobody issued

NewKey(kind, set, lin, prov) == [kind |-> kind, set |-> set, lin |-> lin, prov |-> prov, alive |-> TRUE, mem |-> "live"]
Ext(f, k, v) == [x \in DOMAIN f \cup {k} |-> IF x = k THEN v ELSE f[x]]

AInit == /\ keys = << >> /\ issued = {} /\ sigof = << >> /\ ser = << >> /\ fmt = << >>
         /\ out = [op |-> "init"]

\* ------------------------------------------------------------------ key generation
\* Algorithm 1 / 6 from explicit seed bytes
KeyGenSeed(set, seed, hpk, hsk) ==
  /\ hpk \notin Handles /\ hsk \notin Handles /\ hpk # hsk
  /\ keys' = Ext(Ext(keys, hpk, NewKey("pk", set, Seeded(seed), "generated")), hsk, NewKey("sk", set, Seeded(seed), "generated"))
  /\ out' = [op |-> "KeyGenSeed", ok |-> TRUE]
  /\ UNCHANGED << issued, sigof, ser, fmt >>
\* Algorithm 1 with the caller's RNG: on a healthy RNG exactly the seeded function of the draw
KeyGenRng(set, draw, fault, hpk, hsk) ==
  /\ hpk \notin Handles /\ hsk \notin Handles /\ hpk # hsk
  /\ IF fault = "none"
     THEN /\ keys' = Ext(Ext(keys, hpk, NewKey("pk", set, Seeded(draw), "generated")), hsk, NewKey("sk", set, Seeded(draw), "generated"))
          /\ out' = [op |-> "KeyGenRng", ok |-> TRUE, rnglog |-> OneDraw]
     ELSE /\ keys' = keys
          /\ out' = [op |-> "KeyGenRng", ok |-> FALSE, rnglog |-> OneDraw]
  /\ UNCHANGED << issued, sigof, ser, fmt >>

\* ------------------------------------------------------------------ message formatting (Algorithms 2-5, first lines)
\* `mp` is the identity of M' = FormatMsg(mode, ctx, M) as observed; the model requires it to be a function of the
\* triple and injective (what MC_Format proves of the specification's FormatMsg).  Only contexts within the limit have an M'.
FmtKey(mode, ctx, msg) == << mode, ctx, msg >>
FmtOK(mode, ctx, msg, mp) ==
  /\ FmtKey(mode, ctx, msg) \in DOMAIN fmt => fmt[FmtKey(mode, ctx, msg)] = mp
  /\ \A k2 \in DOMAIN fmt : fmt[k2] = mp => k2 = FmtKey(mode, ctx, msg)
FmtNote(mode, ctx, msg, mp) == fmt' = Ext(fmt, FmtKey(mode, ctx, msg), mp)

\* ------------------------------------------------------------------ signing (Algorithms 2, 4, 7)
SigKey(h, mp, draw) == << keys[h].set, keys[h].lin, mp, draw >>
\* the deterministic core shared by both interfaces: `sig` is the issued string; determinism and injectivity tie it to SigKey
Issue(h, mp, draw, sig) ==
  LET k == SigKey(h, mp, draw) IN
  /\ k \in DOMAIN sigof => sigof[k] = sig                          \* a function of (key, M', rnd) only
  /\ \A k2 \in DOMAIN sigof : sigof[k2] = sig => k2 = k             \* and injective (else a SHAKE collision)
  /\ sigof' = Ext(sigof, k, sig)
  /\ issued' = issued \cup { << sig, keys[h].set, keys[h].lin, mp >> }
Sign(h, msg, ctx, ctxlen, mode, mp, draw, fault, sig) ==
  /\ IsSk(h) /\ mode \in AModes
  /\ IF ctxlen > 255
     THEN /\ out' = [op |-> "Sign", ok |-> FALSE, rnglog |-> NoDraw, ctxlen |-> ctxlen]  \* rejected before any randomness is drawn
          /\ UNCHANGED << issued, sigof, fmt >>
     ELSE /\ FmtOK(mode, ctx, msg, mp) /\ FmtNote(mode, ctx, msg, mp)
          /\ IF fault # "none"
             THEN /\ out' = [op |-> "Sign", ok |-> FALSE, rnglog |-> OneDraw, ctxlen |-> ctxlen]
                  /\ UNCHANGED << issued, sigof >>
             ELSE /\ Issue(h, mp, draw, sig)
                  /\ out' = [op |-> "Sign", ok |-> TRUE, rnglog |-> OneDraw, ctxlen |-> ctxlen]
  /\ UNCHANGED << keys, ser >>
\* Algorithm 7 through the internal interface: M' and rnd are given, nothing is drawn, no context rule
SignInternal(h, mp, draw, sig) ==
  /\ IsSk(h)
  /\ Issue(h, mp, draw, sig)
  /\ out' = [op |-> "SignInternal", ok |-> TRUE]
  /\ UNCHANGED << keys, ser, fmt >>

\* ------------------------------------------------------------------ verification (Algorithms 3, 5, 8)
VerdictMp(h, mp, sig) == << sig, keys[h].set, keys[h].lin, mp >> \in issued
Verdict(h, ctxlen, mp, sig) == ctxlen <= 255 /\ VerdictMp(h, mp, sig)
Verify(h, msg, ctx, ctxlen, mode, mp, sig) ==
  /\ IsPk(h) /\ mode \in AModes
  /\ IF ctxlen > 255 THEN UNCHANGED fmt ELSE FmtOK(mode, ctx, msg, mp) /\ FmtNote(mode, ctx, msg, mp)
  /\ out' = [op |-> "Verify", res |-> Verdict(h, ctxlen, mp, sig)]
  /\ UNCHANGED << keys, issued, sigof, ser >>
VerifyInternal(h, mp, sig) ==
  /\ IsPk(h)
  /\ out' = [op |-> "VerifyInternal", res |-> VerdictMp(h, mp, sig)]
  /\ UNCHANGED << keys, issued, sigof, ser, fmt >>

\* ------------------------------------------------------------------ the constant-time test entry point (feature `dudect`)
\* KeyGen then Sign in test mode: two requests of 32 bytes through the fallible interface (seed, then rnd); a failure
\* of either request ends the call with an error.  It returns no key object and its output is not a signature of the
\* ideal functionality (rejection is neutralised), so nothing is issued.
TwoDraws == OneDraw \o OneDraw
Dudect(fault, at) ==
  /\ at \in {0, 1}
  /\ out' = [op |-> "Dudect", ok |-> (fault = "none"), rnglog |-> IF fault # "none" /\ at = 0 THEN OneDraw ELSE TwoDraws]
  /\ UNCHANGED << keys, issued, sigof, ser, fmt >>

\* The OS-RNG convenience entry points are KeyGenRng / Sign with the operating system as the generator.  `healthy` is
\* the state of that generator (environment): when it fails the call reports an error and, as for any RNG fault, nothing
\* is created or issued; the objects made by a successful call are not tracked (their randomness is not observable).
OsRng(entry, healthy) ==
  /\ entry \in {"try_keygen", "try_sign", "try_hash_sign"}
  /\ out' = [op |-> "OsRng", ok |-> healthy]
  /\ UNCHANGED << keys, issued, sigof, ser, fmt >>

\* ------------------------------------------------------------------ serialisation
SerKey(h) == << keys[h].kind, keys[h].set, keys[h].lin >>
Serialise(h, bytes) ==
  /\ Live(h)
  /\ SerKey(h) \in DOMAIN ser => ser[SerKey(h)] = bytes                     \* canonical: one string per (kind, set, lineage)
  /\ keys[h].lin[1] = "foreign" => bytes = keys[h].lin[2]                   \* a deserialised foreign string serialises back to itself
  /\ \A k2 \in DOMAIN ser : ser[k2] = bytes => k2 = SerKey(h)               \* injective
  /\ ser' = Ext(ser, SerKey(h), bytes)
  /\ out' = [op |-> "Serialise", bytes |-> bytes]
  /\ UNCHANGED << keys, issued, sigof, fmt >>
\* lineage of a byte string: the key it was serialised from, else foreign
LineageOf(kind, set, bytes) ==
  IF \E k \in DOMAIN ser : ser[k] = bytes /\ k[1] = kind /\ k[2] = set
  THEN (CHOOSE k \in DOMAIN ser : ser[k] = bytes /\ k[1] = kind /\ k[2] = set)[3]
  ELSE Foreign(bytes)
\* `accept` is FIPS 204's acceptance of the string (always TRUE for public keys; for private keys
\* the s1/s2 range rule, decided by Layer F / C10); a rejected string creates no object
Deserialise(kind, set, bytes, accept, h) ==
  /\ h \notin Handles
  /\ IF accept THEN keys' = Ext(keys, h, NewKey(kind, set, LineageOf(kind, set, bytes), "deserialised"))
               ELSE keys' = keys
  /\ out' = [op |-> "Deserialise", ok |-> accept]
  /\ UNCHANGED << issued, sigof, ser, fmt >>
Derive(hsk, hpk) ==
  /\ IsSk(hsk) /\ hpk \notin Handles
  /\ keys' = Ext(keys, hpk, NewKey("pk", keys[hsk].set, keys[hsk].lin, "derived"))
  /\ out' = [op |-> "Derive"]
  /\ UNCHANGED << issued, sigof, ser, fmt >>
Clone(h, h2) ==
  /\ Live(h) /\ h2 \notin Handles
  /\ keys' = Ext(keys, h2, [keys[h] EXCEPT !.prov = "cloned"])
  /\ out' = [op |-> "Clone"]
  /\ UNCHANGED << issued, sigof, ser, fmt >>
Drop(h) ==
  /\ Live(h)
  /\ keys' = [keys EXCEPT ![h].alive = FALSE, ![h].mem = "zero"]
  /\ out' = [op |-> "Drop", nonzero_after |-> 0]
  /\ UNCHANGED << issued, sigof, ser, fmt >>

\* ------------------------------------------------------------------ user-facing guarantees
TypeOK ==
  /\ \A h \in Handles : keys[h].kind \in {"pk", "sk"} /\ keys[h].set \in Sets /\ keys[h].alive \in BOOLEAN
  /\ \A t \in issued : t[2] \in Sets
  /\ \A k \in DOMAIN fmt : k[1] \in AModes
\* C16: a dropped key holds no key material
DroppedIsZero == \A h \in Handles : ~keys[h].alive => keys[h].mem = "zero"
\* C01 / C11: whatever the provenance of the two key objects, an issued tuple verifies under every
\* live public key of the signer's lineage and set
HonestVerifies ==
  \A t \in issued : \A h \in Handles :
     (IsPk(h) /\ keys[h].set = t[2] /\ keys[h].lin = t[3]) => Verdict(h, 0, t[4], t[1])
\* C03-lite: one signature string per (set, lineage, M', rnd)
SigFunctional == \A k1, k2 \in DOMAIN sigof : sigof[k1] = sigof[k2] => k1 = k2
\* C09: one serialisation per (kind, set, lineage), injective
SerInjective == \A k1, k2 \in DOMAIN ser : ser[k1] = ser[k2] => k1 = k2
\* C06: one formatted message per (mode, ctx, M), injective
FmtInjective == \A k1, k2 \in DOMAIN fmt : fmt[k1] = fmt[k2] => k1 = k2
=======================================================================
