---------------------------- MODULE Ring ----------------------------
(* R_q = Z_q[X]/(X^N+1) and T_q: Algorithms 41, 42, 44-48, plus the defining       *)
(* schoolbook product used as the oracle for the NTT path.  Polynomials are         *)
(* functions Idx -> 0..Q-1; every aggregate is forced with TLCEval at its outermost *)
(* level (DESIGN section 10).                                                       *)
EXTENDS Field

ZeroPoly == [j \in Idx |-> 0]
ModQPoly(p)   == TLCEval([n \in Idx |-> p[n] % Q])
CenterPoly(p) == TLCEval([n \in Idx |-> ModPM(p[n], Q)])
ScalePoly(p, s) == TLCEval([n \in Idx |-> MulMod(p[n] % Q, s % Q)])
PolyAdd(a, b) == TLCEval([n \in Idx |-> (a[n] + b[n]) % Q])
PolySub(a, b) == TLCEval([n \in Idx |-> (a[n] - b[n]) % Q])
PolyNeg(a)    == TLCEval([n \in Idx |-> (-a[n]) % Q])

\* ---- Algorithm 41: one layer with butterfly distance len, then all layers len = N/2 .. 1
NttLayer(w, len) ==
  LET base == N \div (2 * len) IN
  TLCEval([j \in Idx |->
     LET blk == j \div (2 * len)
         off == j % (2 * len)
         z   == Zeta(base + blk)
     IN IF off < len THEN (w[j] + MulMod(z, w[j + len])) % Q
        ELSE (w[j - len] - MulMod(z, w[j])) % Q ])
RECURSIVE NttFrom(_, _)
NttFrom(w, len) == IF len = 0 THEN w ELSE NttFrom(NttLayer(w, len), len \div 2)
NTT(w) == NttFrom(w, N \div 2)

\* ---- Algorithm 42: m runs downwards; the block blk of layer len uses -zeta^{brv(2*nblk-1-blk)}
InvLayer(w, len) ==
  LET nblk == N \div (2 * len) IN
  TLCEval([j \in Idx |->
     LET blk == j \div (2 * len)
         off == j % (2 * len)
         z   == NegMod(Zeta(2 * nblk - 1 - blk))
     IN IF off < len THEN (w[j] + w[j + len]) % Q
        ELSE MulMod(z, (w[j - len] - w[j]) % Q) ])
RECURSIVE InvFrom(_, _)
InvFrom(w, len) == IF len = N THEN w ELSE InvFrom(InvLayer(w, len), 2 * len)
InvNTT(w) == LET h == InvFrom(w, 1) IN TLCEval([j \in Idx |-> MulMod(NINV, h[j])])

\* ---- Algorithms 44, 45: coefficient-wise in T_q
AddNTT(a, b)      == PolyAdd(a, b)
MultiplyNTT(a, b) == TLCEval([n \in Idx |-> MulMod(a[n], b[n])])
\* ---- Algorithms 46, 47, 48 on vectors (functions 0..len-1 -> T_q)
AddVectorNTT(v, w, len)    == TLCEval([i \in 0 .. len - 1 |-> AddNTT(v[i], w[i])])
ScalarVectorNTT(c, v, len) == TLCEval([i \in 0 .. len - 1 |-> MultiplyNTT(c, v[i])])
RowDot(Mrow, v) == TLCEval([n \in Idx |->
      LET RECURSIVE S(_)
          S(j) == IF j = LL THEN 0 ELSE (MulMod(Mrow[j][n], v[j][n]) + S(j + 1)) % Q
      IN S(0)])
MatrixVectorNTT(M, v) == TLCEval([i \in 0 .. KK - 1 |-> RowDot(M[i], v)])

\* ---- the definition: schoolbook product in Z_q[X]/(X^N+1) (coefficients in 0..Q-1)
Schoolbook(f, g) == TLCEval([i \in Idx |->
   LET RECURSIVE S(_)
       S(j) == IF j = N THEN 0
               ELSE ((IF j <= i THEN MulMod(f[j], g[i - j])
                               ELSE NegMod(MulMod(f[j], g[N + i - j]))) + S(j + 1)) % Q
   IN S(0)])

\* infinity norm of a vector of polynomials with arbitrary integer coefficients
PolyNorm(p) == LET RECURSIVE M(_, _)
                   M(n, acc) == IF n = N THEN acc ELSE M(n + 1, MaxI(acc, Abs(ModPM(p[n], Q))))
               IN M(0, 0)
RECURSIVE VecNormFrom(_, _, _, _)
VecNormFrom(v, i, len, acc) == IF i = len THEN acc ELSE VecNormFrom(v, i + 1, len, MaxI(acc, PolyNorm(v[i])))
VecNorm(v, len) == VecNormFrom(v, 0, len, 0)
=======================================================================
