---------------------------- MODULE Field ----------------------------
(* Arithmetic in Z_q that never leaves TLC's 32-bit integers, mod+-, BitRev        *)
(* (Algorithm 43) and the table of zeta powers used by Algorithms 41/42.           *)
EXTENDS Params

\* a*b mod Q for 0 <= a, b < Q <= 2^23 by three 8-bit limbs of b (every product < 2^31)
MulMod(a, b) ==
  LET b0 == b % 256
      b1 == (b \div 256) % 256
      b2 == b \div 65536
      t2 == (a * b2) % Q
      t1 == (((t2 * 256) % Q) + ((a * b1) % Q)) % Q
  IN (((t1 * 256) % Q) + ((a * b0) % Q)) % Q
AddMod(a, b) == (a + b) % Q
SubMod(a, b) == (a - b + Q) % Q
NegMod(a)    == (Q - a) % Q
ModQ(x)      == x % Q                    \* TLC's % is the mathematical (non-negative) mod

\* m mod+- a : the representative in (-a/2, a/2]   (Section 2.3)
ModPM(m, a) == LET t == m % a IN IF t > a \div 2 THEN t - a ELSE t

RECURSIVE PowMod(_, _)
PowMod(b, e) == IF e = 0 THEN 1 % Q
                ELSE LET h == PowMod(b, e \div 2)
                         s == MulMod(h, h)
                     IN IF e % 2 = 1 THEN MulMod(s, b % Q) ELSE s

\* Algorithm 43 generalised to log2(N) bits
LOGN == BitLen(N) - 1
RECURSIVE BitRevBits(_, _)
BitRevBits(m, bits) == IF bits = 0 THEN 0
                       ELSE (m % 2) * 2^(bits - 1) + BitRevBits(m \div 2, bits - 1)
BitRev(m) == BitRevBits(m, LOGN)

\* zeta^BitRev(i) mod Q for i = 0..N-1, built as a concrete tuple (divide and conquer: no
\* deep recursion, no lazy function value)
RECURSIVE ZetaBuild(_, _)
ZetaBuild(lo, hi) == IF hi - lo = 1 THEN << PowMod(ZETA, BitRev(lo)) >>
                     ELSE LET mid == (lo + hi) \div 2 IN ZetaBuild(lo, mid) \o ZetaBuild(mid, hi)
ZetaTab == ZetaBuild(0, N)
Zeta(m) == ZetaTab[m + 1]

NINV == PowMod(N % Q, Q - 2)             \* f = N^-1 mod Q  (8347681 for the standard's q, N)

FieldOK == /\ PowMod(ZETA, N) = Q - 1    \* zeta is a primitive 2N-th root of unity
           /\ MulMod(NINV, N % Q) = 1
=======================================================================
