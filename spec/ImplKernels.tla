---------------------------- MODULE ImplKernels ----------------------------
(* Layer I: TLA+ transcriptions of the implementation's branch-free integer kernels    *)
(* (helpers.rs, high_low.rs, conversion.rs) with their documented pre/post-conditions.  *)
(* Shifts are written as floor divisions (>> on a two's-complement i32 is floor          *)
(* division by a power of two).  MC_Kernels checks, for every element of the domain,     *)
(* that each transcription equals the FIPS 204 definition (Rounding.tla / Codec.tla);    *)
(* AP_Kernels (Apalache) discharges the contracts that need 64-bit integers.             *)
EXTENDS Codec

Shr(x, k) == x \div 2^k
Neg31(x) == IF x < 0 THEN -1 ELSE 0                     \* x >> 31 for an i32: all ones iff negative

\* helpers.rs: partial_reduce32, full_reduce32, center_mod     (pre: |a| < 2143289344)
Pre32(a) == a > -2143289344 /\ a < 2143289344
PartialReduce32(a) == a - Shr(a + 2^22, 23) * Q
FullReduce32(a) == LET x == PartialReduce32(a) IN x + (IF Neg31(x) = -1 THEN Q ELSE 0)
CenterMod(m) == LET t == FullReduce32(m) IN t - (IF Neg31((Q \div 2) - t) = -1 THEN Q ELSE 0)

\* high_low.rs: power2round (shift form) and the two multiply-shift decompositions
P2RImpl(r) == LET r1 == Shr(r + 2^(D - 1) - 1, D) IN << r1, r - r1 * 2^D >>
DecomposeImpl(r) ==
  LET rp == FullReduce32(r)
      t  == Shr(rp + 127, 7)
      r1 == IF GAMMA2 = 95232
            THEN LET u == Shr(t * 11275 + 2^23, 24) IN IF 43 - u < 0 THEN 0 ELSE u      \* u ^= ((43 - u) >> 31) & u
            ELSE Shr(t * 1025 + 2^21, 22) % 16                                           \* & 15
      x0 == rp - r1 * 2 * GAMMA2
      r0 == x0 - (IF (Q - 1) \div 2 - x0 < 0 THEN Q ELSE 0)
  IN << r1, r0 >>
UseHintImpl(h, r) ==
  LET d == DecomposeImpl(r) IN
  IF h = 0 THEN d[1]
  ELSE IF GAMMA2 = 95232
       THEN IF d[2] > 0 THEN (IF d[1] = 43 THEN 0 ELSE d[1] + 1) ELSE (IF d[1] = 0 THEN 43 ELSE d[1] - 1)
       ELSE IF d[2] > 0 THEN (d[1] + 1) % 16 ELSE (d[1] - 1) % 16

\* conversion.rs: coeff_from_half_byte's multiply-shift "mod 5", coeff_from_three_bytes
M5 == 2^24 \div 5 + 1
HalfByteImpl(b) == IF ETA = 2 /\ b < 15 THEN 2 - (b - Shr(b * M5, 24) * 5)
                   ELSE IF ETA = 4 /\ b < 9 THEN 4 - b ELSE Bot
ThreeBytesImpl(b0, b1, b2) == LET z == (b2 % 128) * 65536 + b1 * 256 + b0 IN IF z < Q THEN z ELSE Bot
=======================================================================
