---------------------------- MODULE API_proofs ----------------------------
(* Unbounded safety of Layer A, proved with TLAPS (no bound on the number of key objects,    *)
(* calls, messages or signatures): the lifecycle invariant behind C16 -- a dropped key holds  *)
(* no key material -- is inductive under EVERY action of the API state machine, with          *)
(* arbitrary arguments.  (TLC checks the same invariant, and the others, on bounded universes *)
(* in MC_API; this module removes the bound for the one that is a pure state invariant.)      *)
EXTENDS API, TLAPS

\* the next-state relation of the API machine with unconstrained arguments
ANext ==
  \/ \E set, seed, hpk, hsk : KeyGenSeed(set, seed, hpk, hsk)
  \/ \E set, draw, fault, hpk, hsk : KeyGenRng(set, draw, fault, hpk, hsk)
  \/ \E h, msg, ctx, ctxlen, mode, mp, draw, fault, sig : Sign(h, msg, ctx, ctxlen, mode, mp, draw, fault, sig)
  \/ \E h, mp, draw, sig : SignInternal(h, mp, draw, sig)
  \/ \E h, msg, ctx, ctxlen, mode, mp, sig : Verify(h, msg, ctx, ctxlen, mode, mp, sig)
  \/ \E h, mp, sig : VerifyInternal(h, mp, sig)
  \/ \E fault, at : Dudect(fault, at)
  \/ \E entry, healthy : OsRng(entry, healthy)
  \/ \E h, bytes : Serialise(h, bytes)
  \/ \E kind, set, bytes, accept, h : Deserialise(kind, set, bytes, accept, h)
  \/ \E hsk, hpk : Derive(hsk, hpk)
  \/ \E h, h2 : Clone(h, h2)
  \/ \E h : Drop(h)
ASpec == AInit /\ [][ANext]_avars

\* r is a key record (so that EXCEPT on it is defined), alive with live memory or dead with zeroed memory
P(r) == /\ r = [kind |-> r.kind, set |-> r.set, lin |-> r.lin, prov |-> r.prov, alive |-> r.alive, mem |-> r.mem]
        /\ (r.alive = TRUE \/ r.mem = "zero")
\* every key object is a well-formed record, alive with live memory, or dead with zeroed memory (implies DroppedIsZero)
LifeInv == \A h \in DOMAIN keys : P(keys[h])

LEMMA ExtKeeps ==
  ASSUME NEW f, NEW k, NEW v, \A x \in DOMAIN f : P(f[x]), P(v)
  PROVE  \A x \in DOMAIN Ext(f, k, v) : P(Ext(f, k, v)[x])
  BY DEF Ext, P

THEOREM LifeInductive == ASpec => []LifeInv
<1>1. AInit => LifeInv
  BY DEF AInit, LifeInv
<1>2. LifeInv /\ [ANext]_avars => LifeInv'
  <2> SUFFICES ASSUME LifeInv, [ANext]_avars PROVE LifeInv'
    OBVIOUS
  <2>0. \A x \in DOMAIN keys : P(keys[x])
    BY DEF LifeInv, P
  <2>1. ASSUME NEW set, NEW seed, NEW hpk, NEW hsk, KeyGenSeed(set, seed, hpk, hsk) PROVE LifeInv'
    <3>1. P(NewKey("pk", set, Seeded(seed), "generated")) /\ P(NewKey("sk", set, Seeded(seed), "generated"))
      BY DEF NewKey, P
    <3>2. \A x \in DOMAIN Ext(keys, hpk, NewKey("pk", set, Seeded(seed), "generated")) : P(Ext(keys, hpk, NewKey("pk", set, Seeded(seed), "generated"))[x])
      BY <2>0, <3>1, ExtKeeps
    <3>3. \A x \in DOMAIN keys' : P(keys'[x])
      BY <2>1, <3>1, <3>2, ExtKeeps DEF KeyGenSeed
    <3> QED BY <3>3 DEF LifeInv, P
  <2>2. ASSUME NEW set, NEW draw, NEW fault, NEW hpk, NEW hsk, KeyGenRng(set, draw, fault, hpk, hsk) PROVE LifeInv'
    <3>1. P(NewKey("pk", set, Seeded(draw), "generated")) /\ P(NewKey("sk", set, Seeded(draw), "generated"))
      BY DEF NewKey, P
    <3>2. \A x \in DOMAIN Ext(keys, hpk, NewKey("pk", set, Seeded(draw), "generated")) : P(Ext(keys, hpk, NewKey("pk", set, Seeded(draw), "generated"))[x])
      BY <2>0, <3>1, ExtKeeps
    <3>3. CASE fault = "none"
      <4>1. \A x \in DOMAIN keys' : P(keys'[x])
        BY <2>2, <3>1, <3>2, <3>3, ExtKeeps DEF KeyGenRng
      <4> QED BY <4>1 DEF LifeInv, P
    <3>4. CASE fault # "none"
      BY <2>2, <3>4, <2>0 DEF KeyGenRng, LifeInv, P
    <3> QED BY <3>3, <3>4
  <2>3. ASSUME NEW kind, NEW set, NEW bytes, NEW accept, NEW h, Deserialise(kind, set, bytes, accept, h) PROVE LifeInv'
    <3>1. P(NewKey(kind, set, LineageOf(kind, set, bytes), "deserialised"))
      BY DEF NewKey, P
    <3>2. CASE accept
      <4>1. \A x \in DOMAIN keys' : P(keys'[x])
        BY <2>3, <3>1, <3>2, <2>0, ExtKeeps DEF Deserialise
      <4> QED BY <4>1 DEF LifeInv, P
    <3>3. CASE ~accept
      BY <2>3, <3>3, <2>0 DEF Deserialise, LifeInv, P
    <3> QED BY <3>2, <3>3
  <2>4. ASSUME NEW hsk, NEW hpk, Derive(hsk, hpk) PROVE LifeInv'
    <3>1. P(NewKey("pk", keys[hsk].set, keys[hsk].lin, "derived"))
      BY DEF NewKey, P
    <3>2. \A x \in DOMAIN keys' : P(keys'[x])
      BY <2>4, <3>1, <2>0, ExtKeeps DEF Derive
    <3> QED BY <3>2 DEF LifeInv, P
  <2>5. ASSUME NEW h, NEW h2, Clone(h, h2) PROVE LifeInv'
    <3>1. P([keys[h] EXCEPT !.prov = "cloned"])
      BY <2>5, <2>0 DEF Clone, Live, Handles, P
    <3>2. \A x \in DOMAIN keys' : P(keys'[x])
      BY <2>5, <3>1, <2>0, ExtKeeps DEF Clone
    <3> QED BY <3>2 DEF LifeInv, P
  <2>6. ASSUME NEW h, Drop(h) PROVE LifeInv'
    BY <2>6, <2>0 DEF Drop, Live, Handles, LifeInv, P
  <2>7. ASSUME UNCHANGED keys PROVE LifeInv'
    BY <2>7, <2>0 DEF LifeInv, P
  <2>8. CASE UNCHANGED avars
    BY <2>8, <2>7 DEF avars
  <2>9. ASSUME NEW h, NEW msg, NEW ctx, NEW ctxlen, NEW mode, NEW mp, NEW draw, NEW fault, NEW sig, Sign(h, msg, ctx, ctxlen, mode, mp, draw, fault, sig) PROVE LifeInv'
    BY <2>9, <2>7 DEF Sign
  <2>10. ASSUME NEW h, NEW mp, NEW draw, NEW sig, SignInternal(h, mp, draw, sig) PROVE LifeInv'
    BY <2>10, <2>7 DEF SignInternal
  <2>11. ASSUME NEW h, NEW msg, NEW ctx, NEW ctxlen, NEW mode, NEW mp, NEW sig, Verify(h, msg, ctx, ctxlen, mode, mp, sig) PROVE LifeInv'
    BY <2>11, <2>7 DEF Verify
  <2>12. ASSUME NEW h, NEW mp, NEW sig, VerifyInternal(h, mp, sig) PROVE LifeInv'
    BY <2>12, <2>7 DEF VerifyInternal
  <2>13. ASSUME NEW fault, NEW at, Dudect(fault, at) PROVE LifeInv'
    BY <2>13, <2>7 DEF Dudect
  <2>os. ASSUME NEW entry, NEW healthy, OsRng(entry, healthy) PROVE LifeInv'
    BY <2>os, <2>7 DEF OsRng
  <2>14. ASSUME NEW h, NEW bytes, Serialise(h, bytes) PROVE LifeInv'
    BY <2>14, <2>7 DEF Serialise
  <2> QED
    BY <2>1, <2>2, <2>3, <2>4, <2>5, <2>6, <2>8, <2>9, <2>10, <2>11, <2>12, <2>13, <2>14, <2>os DEF ANext
<1> QED
  BY <1>1, <1>2, PTL DEF ASpec

THEOREM DroppedZero == ASpec => []DroppedIsZero
  <1>1. LifeInv => DroppedIsZero
    BY DEF LifeInv, DroppedIsZero, Handles, P
  <1> QED BY <1>1, LifeInductive, PTL

(* ---------------------------------------------------------------------------------------- *)
(* Injectivity invariants (C03-lite, C09, C06) without bounds: the three observed maps --    *)
(* (set, lineage, M', rnd) -> signature, (kind, set, lineage) -> bytes, (mode, ctx, M) -> M' *)
(* -- stay injective under every action, whatever the arguments.                             *)
Inj(f) == \A k1, k2 \in DOMAIN f : f[k1] = f[k2] => k1 = k2
InjInv == Inj(sigof) /\ Inj(ser) /\ Inj(fmt)

LEMMA ExtInj ==
  ASSUME NEW f, NEW k, NEW v, Inj(f), k \in DOMAIN f => f[k] = v, \A k2 \in DOMAIN f : f[k2] = v => k2 = k
  PROVE  Inj(Ext(f, k, v))
  BY DEF Ext, Inj

THEOREM InjInductive == ASpec => []InjInv
<1>1. AInit => InjInv
  BY DEF AInit, InjInv, Inj
<1>2. InjInv /\ [ANext]_avars => InjInv'
  <2> SUFFICES ASSUME InjInv, [ANext]_avars PROVE InjInv'
    OBVIOUS
  <2>a. Inj(sigof) /\ Inj(ser) /\ Inj(fmt)
    BY DEF InjInv
  <2>i. ASSUME NEW h, NEW mp, NEW draw, NEW sig, Issue(h, mp, draw, sig) PROVE Inj(sigof')
    BY <2>i, <2>a, ExtInj DEF Issue
  <2>f. ASSUME NEW mode, NEW ctx, NEW msg, NEW mp, FmtOK(mode, ctx, msg, mp), FmtNote(mode, ctx, msg, mp) PROVE Inj(fmt')
    BY <2>f, <2>a, ExtInj DEF FmtOK, FmtNote
  <2>1. ASSUME NEW h, NEW msg, NEW ctx, NEW ctxlen, NEW mode, NEW mp, NEW draw, NEW fault, NEW sig, Sign(h, msg, ctx, ctxlen, mode, mp, draw, fault, sig) PROVE InjInv'
    <3>1. CASE ctxlen > 255
      BY <2>1, <3>1, <2>a DEF Sign, InjInv
    <3>2. CASE ~(ctxlen > 255) /\ fault # "none"
      BY <2>1, <3>2, <2>a, <2>f DEF Sign, InjInv
    <3>3. CASE ~(ctxlen > 255) /\ fault = "none"
      BY <2>1, <3>3, <2>a, <2>f, <2>i DEF Sign, InjInv
    <3> QED BY <3>1, <3>2, <3>3
  <2>2. ASSUME NEW h, NEW mp, NEW draw, NEW sig, SignInternal(h, mp, draw, sig) PROVE InjInv'
    BY <2>2, <2>a, <2>i DEF SignInternal, InjInv
  <2>3. ASSUME NEW h, NEW msg, NEW ctx, NEW ctxlen, NEW mode, NEW mp, NEW sig, Verify(h, msg, ctx, ctxlen, mode, mp, sig) PROVE InjInv'
    <3>1. CASE ctxlen > 255
      BY <2>3, <3>1, <2>a DEF Verify, InjInv
    <3>2. CASE ~(ctxlen > 255)
      BY <2>3, <3>2, <2>a, <2>f DEF Verify, InjInv
    <3> QED BY <3>1, <3>2
  <2>4. ASSUME NEW h, NEW bytes, Serialise(h, bytes) PROVE InjInv'
    <3>1. Inj(ser')
      BY <2>4, <2>a, ExtInj DEF Serialise
    <3> QED BY <2>4, <2>a, <3>1 DEF Serialise, InjInv
  <2>5. ASSUME UNCHANGED << sigof, ser, fmt >> PROVE InjInv'
    BY <2>5, <2>a DEF InjInv
  <2>6. CASE UNCHANGED avars
    BY <2>6, <2>5 DEF avars
  <2>7. ASSUME NEW set, NEW seed, NEW hpk, NEW hsk, KeyGenSeed(set, seed, hpk, hsk) PROVE InjInv'
    BY <2>7, <2>5 DEF KeyGenSeed
  <2>8. ASSUME NEW set, NEW draw, NEW fault, NEW hpk, NEW hsk, KeyGenRng(set, draw, fault, hpk, hsk) PROVE InjInv'
    BY <2>8, <2>5 DEF KeyGenRng
  <2>9. ASSUME NEW h, NEW mp, NEW sig, VerifyInternal(h, mp, sig) PROVE InjInv'
    BY <2>9, <2>5 DEF VerifyInternal
  <2>10. ASSUME NEW fault, NEW at, Dudect(fault, at) PROVE InjInv'
    BY <2>10, <2>5 DEF Dudect
  <2>os. ASSUME NEW entry, NEW healthy, OsRng(entry, healthy) PROVE InjInv'
    BY <2>os, <2>5 DEF OsRng
  <2>11. ASSUME NEW kind, NEW set, NEW bytes, NEW accept, NEW h, Deserialise(kind, set, bytes, accept, h) PROVE InjInv'
    BY <2>11, <2>5 DEF Deserialise
  <2>12. ASSUME NEW hsk, NEW hpk, Derive(hsk, hpk) PROVE InjInv'
    BY <2>12, <2>5 DEF Derive
  <2>13. ASSUME NEW h, NEW h2, Clone(h, h2) PROVE InjInv'
    BY <2>13, <2>5 DEF Clone
  <2>14. ASSUME NEW h, Drop(h) PROVE InjInv'
    BY <2>14, <2>5 DEF Drop
  <2> QED
    BY <2>1, <2>2, <2>3, <2>4, <2>6, <2>7, <2>8, <2>9, <2>10, <2>11, <2>12, <2>13, <2>14, <2>os DEF ANext
<1> QED
  BY <1>1, <1>2, PTL DEF ASpec

THEOREM Injective == ASpec => [](SigFunctional /\ SerInjective /\ FmtInjective)
  <1>1. InjInv => (SigFunctional /\ SerInjective /\ FmtInjective)
    BY DEF InjInv, Inj, SigFunctional, SerInjective, FmtInjective
  <1> QED BY <1>1, InjInductive, PTL

(* ---------------------------------------------------------------------------------------- *)
(* Nothing is ever revoked or re-decided: the set of issued tuples only grows and a          *)
(* (key, M', rnd) that was signed once keeps its signature -- so a TRUE verdict stays TRUE    *)
(* and signing stays deterministic over the whole history, not only between adjacent calls.   *)
Stable == /\ issued \subseteq issued'
          /\ \A k \in DOMAIN sigof : k \in DOMAIN sigof' /\ sigof'[k] = sigof[k]
THEOREM Monotone == ASpec => [][Stable]_avars
<1>1. ASSUME [ANext]_avars PROVE [Stable]_avars
  <2>i. ASSUME NEW h, NEW mp, NEW draw, NEW sig, Issue(h, mp, draw, sig) PROVE Stable
    BY <2>i DEF Issue, Stable, Ext
  <2>u. ASSUME UNCHANGED << issued, sigof >> PROVE Stable
    BY <2>u DEF Stable
  <2>1. ASSUME NEW h, NEW msg, NEW ctx, NEW ctxlen, NEW mode, NEW mp, NEW draw, NEW fault, NEW sig, Sign(h, msg, ctx, ctxlen, mode, mp, draw, fault, sig) PROVE Stable
    <3>1. CASE ctxlen > 255
      BY <2>1, <3>1, <2>u DEF Sign
    <3>2. CASE ~(ctxlen > 255) /\ fault # "none"
      BY <2>1, <3>2, <2>u DEF Sign
    <3>3. CASE ~(ctxlen > 255) /\ fault = "none"
      BY <2>1, <3>3, <2>i DEF Sign
    <3> QED BY <3>1, <3>2, <3>3
  <2>2. ASSUME NEW h, NEW mp, NEW draw, NEW sig, SignInternal(h, mp, draw, sig) PROVE Stable
    BY <2>2, <2>i DEF SignInternal
  <2>3. CASE UNCHANGED avars
    BY <2>3, <2>u DEF avars
  <2>4. ASSUME NEW set, NEW seed, NEW hpk, NEW hsk, KeyGenSeed(set, seed, hpk, hsk) PROVE Stable
    BY <2>4, <2>u DEF KeyGenSeed
  <2>5. ASSUME NEW set, NEW draw, NEW fault, NEW hpk, NEW hsk, KeyGenRng(set, draw, fault, hpk, hsk) PROVE Stable
    BY <2>5, <2>u DEF KeyGenRng
  <2>6. ASSUME NEW h, NEW msg, NEW ctx, NEW ctxlen, NEW mode, NEW mp, NEW sig, Verify(h, msg, ctx, ctxlen, mode, mp, sig) PROVE Stable
    BY <2>6, <2>u DEF Verify
  <2>7. ASSUME NEW h, NEW mp, NEW sig, VerifyInternal(h, mp, sig) PROVE Stable
    BY <2>7, <2>u DEF VerifyInternal
  <2>8. ASSUME NEW fault, NEW at, Dudect(fault, at) PROVE Stable
    BY <2>8, <2>u DEF Dudect
  <2>os. ASSUME NEW entry, NEW healthy, OsRng(entry, healthy) PROVE Stable
    BY <2>os, <2>u DEF OsRng
  <2>9. ASSUME NEW h, NEW bytes, Serialise(h, bytes) PROVE Stable
    BY <2>9, <2>u DEF Serialise
  <2>10. ASSUME NEW kind, NEW set, NEW bytes, NEW accept, NEW h, Deserialise(kind, set, bytes, accept, h) PROVE Stable
    BY <2>10, <2>u DEF Deserialise
  <2>11. ASSUME NEW hsk, NEW hpk, Derive(hsk, hpk) PROVE Stable
    BY <2>11, <2>u DEF Derive
  <2>12. ASSUME NEW h, NEW h2, Clone(h, h2) PROVE Stable
    BY <2>12, <2>u DEF Clone
  <2>13. ASSUME NEW h, Drop(h) PROVE Stable
    BY <2>13, <2>u DEF Drop
  <2> QED
    BY <1>1, <2>1, <2>2, <2>3, <2>4, <2>5, <2>6, <2>7, <2>8, <2>9, <2>10, <2>11, <2>12, <2>13, <2>os DEF ANext
<1> QED
  BY <1>1, PTL DEF ASpec


(* ---------------------------------------------------------------------------------------- *)
(* C07 / C12 without bounds: a call that reports an error creates no key object and issues   *)
(* no signature, and randomness is requested only through the fallible interface, at most    *)
(* once per call (twice for the constant-time test entry point).                             *)
ErrStep == (out'.op \in {"Sign", "KeyGenRng", "Dudect"} /\ ~out'.ok) => (keys' = keys /\ issued' = issued)
THEOREM ErrorCreatesNothingU == ASpec => [][ErrStep]_avars
<1>1. ASSUME [ANext]_avars PROVE [ErrStep]_avars
  <2>1. ASSUME NEW h, NEW msg, NEW ctx, NEW ctxlen, NEW mode, NEW mp, NEW draw, NEW fault, NEW sig, Sign(h, msg, ctx, ctxlen, mode, mp, draw, fault, sig) PROVE ErrStep
    <3>1. CASE ctxlen > 255
      BY <2>1, <3>1 DEF Sign, ErrStep
    <3>2. CASE ~(ctxlen > 255) /\ fault # "none"
      BY <2>1, <3>2 DEF Sign, ErrStep
    <3>3. CASE ~(ctxlen > 255) /\ fault = "none"
      BY <2>1, <3>3 DEF Sign, ErrStep
    <3> QED BY <3>1, <3>2, <3>3
  <2>2. ASSUME NEW set, NEW draw, NEW fault, NEW hpk, NEW hsk, KeyGenRng(set, draw, fault, hpk, hsk) PROVE ErrStep
    <3>1. CASE fault = "none"
      BY <2>2, <3>1 DEF KeyGenRng, ErrStep
    <3>2. CASE fault # "none"
      BY <2>2, <3>2 DEF KeyGenRng, ErrStep
    <3> QED BY <3>1, <3>2
  <2>3. ASSUME NEW fault, NEW at, Dudect(fault, at) PROVE ErrStep
    BY <2>3 DEF Dudect, ErrStep
  <2>os. ASSUME NEW entry, NEW healthy, OsRng(entry, healthy) PROVE ErrStep
    BY <2>os DEF OsRng, ErrStep
  <2>4. CASE UNCHANGED avars
    BY <2>4 DEF avars, ErrStep
  <2>5. ASSUME NEW set, NEW seed, NEW hpk, NEW hsk, KeyGenSeed(set, seed, hpk, hsk) PROVE ErrStep
    BY <2>5 DEF KeyGenSeed, ErrStep
  <2>6. ASSUME NEW h, NEW mp, NEW draw, NEW sig, SignInternal(h, mp, draw, sig) PROVE ErrStep
    BY <2>6 DEF SignInternal, ErrStep
  <2>7. ASSUME NEW h, NEW msg, NEW ctx, NEW ctxlen, NEW mode, NEW mp, NEW sig, Verify(h, msg, ctx, ctxlen, mode, mp, sig) PROVE ErrStep
    BY <2>7 DEF Verify, ErrStep
  <2>8. ASSUME NEW h, NEW mp, NEW sig, VerifyInternal(h, mp, sig) PROVE ErrStep
    BY <2>8 DEF VerifyInternal, ErrStep
  <2>9. ASSUME NEW h, NEW bytes, Serialise(h, bytes) PROVE ErrStep
    BY <2>9 DEF Serialise, ErrStep
  <2>10. ASSUME NEW kind, NEW set, NEW bytes, NEW accept, NEW h, Deserialise(kind, set, bytes, accept, h) PROVE ErrStep
    BY <2>10 DEF Deserialise, ErrStep
  <2>11. ASSUME NEW hsk, NEW hpk, Derive(hsk, hpk) PROVE ErrStep
    BY <2>11 DEF Derive, ErrStep
  <2>12. ASSUME NEW h, NEW h2, Clone(h, h2) PROVE ErrStep
    BY <2>12 DEF Clone, ErrStep
  <2>13. ASSUME NEW h, Drop(h) PROVE ErrStep
    BY <2>13 DEF Drop, ErrStep
  <2> QED
    BY <1>1, <2>1, <2>2, <2>3, <2>4, <2>5, <2>6, <2>7, <2>8, <2>9, <2>10, <2>11, <2>12, <2>13, <2>os DEF ANext
<1> QED
  BY <1>1, PTL DEF ASpec

RngInv == out.op \in {"Sign", "KeyGenRng", "Dudect"} => out.rnglog \in {NoDraw, OneDraw, TwoDraws}
THEOREM RngDisciplineU == ASpec => []RngInv
<1>1. AInit => RngInv
  BY DEF AInit, RngInv
<1>2. RngInv /\ [ANext]_avars => RngInv'
  <2> SUFFICES ASSUME RngInv, [ANext]_avars PROVE RngInv'
    OBVIOUS
  <2>1. ASSUME NEW h, NEW msg, NEW ctx, NEW ctxlen, NEW mode, NEW mp, NEW draw, NEW fault, NEW sig, Sign(h, msg, ctx, ctxlen, mode, mp, draw, fault, sig) PROVE RngInv'
    <3>1. CASE ctxlen > 255
      BY <2>1, <3>1 DEF Sign, RngInv
    <3>2. CASE ~(ctxlen > 255) /\ fault # "none"
      BY <2>1, <3>2 DEF Sign, RngInv
    <3>3. CASE ~(ctxlen > 255) /\ fault = "none"
      BY <2>1, <3>3 DEF Sign, RngInv
    <3> QED BY <3>1, <3>2, <3>3
  <2>2. ASSUME NEW set, NEW draw, NEW fault, NEW hpk, NEW hsk, KeyGenRng(set, draw, fault, hpk, hsk) PROVE RngInv'
    <3>1. CASE fault = "none"
      BY <2>2, <3>1 DEF KeyGenRng, RngInv
    <3>2. CASE fault # "none"
      BY <2>2, <3>2 DEF KeyGenRng, RngInv
    <3> QED BY <3>1, <3>2
  <2>3. ASSUME NEW fault, NEW at, Dudect(fault, at) PROVE RngInv'
    BY <2>3 DEF Dudect, RngInv
  <2>os. ASSUME NEW entry, NEW healthy, OsRng(entry, healthy) PROVE RngInv'
    BY <2>os DEF OsRng, RngInv
  <2>4. CASE UNCHANGED avars
    BY <2>4 DEF avars, RngInv
  <2>5. ASSUME NEW set, NEW seed, NEW hpk, NEW hsk, KeyGenSeed(set, seed, hpk, hsk) PROVE RngInv'
    BY <2>5 DEF KeyGenSeed, RngInv
  <2>6. ASSUME NEW h, NEW mp, NEW draw, NEW sig, SignInternal(h, mp, draw, sig) PROVE RngInv'
    BY <2>6 DEF SignInternal, RngInv
  <2>7. ASSUME NEW h, NEW msg, NEW ctx, NEW ctxlen, NEW mode, NEW mp, NEW sig, Verify(h, msg, ctx, ctxlen, mode, mp, sig) PROVE RngInv'
    BY <2>7 DEF Verify, RngInv
  <2>8. ASSUME NEW h, NEW mp, NEW sig, VerifyInternal(h, mp, sig) PROVE RngInv'
    BY <2>8 DEF VerifyInternal, RngInv
  <2>9. ASSUME NEW h, NEW bytes, Serialise(h, bytes) PROVE RngInv'
    BY <2>9 DEF Serialise, RngInv
  <2>10. ASSUME NEW kind, NEW set, NEW bytes, NEW accept, NEW h, Deserialise(kind, set, bytes, accept, h) PROVE RngInv'
    BY <2>10 DEF Deserialise, RngInv
  <2>11. ASSUME NEW hsk, NEW hpk, Derive(hsk, hpk) PROVE RngInv'
    BY <2>11 DEF Derive, RngInv
  <2>12. ASSUME NEW h, NEW h2, Clone(h, h2) PROVE RngInv'
    BY <2>12 DEF Clone, RngInv
  <2>13. ASSUME NEW h, Drop(h) PROVE RngInv'
    BY <2>13 DEF Drop, RngInv
  <2> QED
    BY <2>1, <2>2, <2>3, <2>4, <2>5, <2>6, <2>7, <2>8, <2>9, <2>10, <2>11, <2>12, <2>13, <2>os DEF ANext
<1> QED
  BY <1>1, <1>2, PTL DEF ASpec

=============================================================================
