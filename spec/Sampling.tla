---------------------------- MODULE Sampling ----------------------------
(* Algorithms 29-34 over the XOF oracle.  A rejection sampler first squeezes an     *)
(* amount that suffices with overwhelming probability and doubles it if it did not  *)
(* (the XOF output is a prefix-closed stream, so this is the same function).        *)
EXTENDS Hash

\* Algorithm 29 on an explicit byte stream s of which `avail` bytes may be read: << c, ok >>, ok = FALSE when the
\* stream ran out before tau positions were found.  (MC_Sampling quantifies over ALL streams at reduced size.)
SampleInBallFrom(s, avail) ==
  LET \* st = <<c, next read position (1-based) in s, ok>>
      step(st, i) ==
         IF ~st[3] THEN st ELSE
         LET RECURSIVE find(_)
             find(p) == IF p > avail THEN 0 ELSE IF s[p] <= i THEN p ELSE find(p + 1)
             p == find(st[2])
         IN IF p = 0 THEN << st[1], st[2], FALSE >> ELSE
            LET j == s[p]
                c1 == [st[1] EXCEPT ![i] = st[1][j]]
                c2 == [c1 EXCEPT ![j] = IF Bit(s, i + TAU - N) = 1 THEN Q - 1 ELSE 1]
            IN << c2, p + 1, TRUE >>
      fin == FoldLeft(step, << [j \in Idx |-> 0], 9, TRUE >>, [x \in 1 .. TAU |-> N - TAU + x - 1])
  IN << fin[1], fin[3] >>
RECURSIVE SampleInBallWith(_, _)
SampleInBallWith(ct, extra) ==
  LET r == SampleInBallFrom(H(ct, 8 + extra), 8 + extra)
  IN IF r[2] THEN TLCEval(r[1]) ELSE SampleInBallWith(ct, 2 * extra)
SampleInBall(ct) == SampleInBallWith(ct, 4 * TAU + 64)      \* result in 0..Q-1 (-1 is Q-1)

\* Algorithm 30
RECURSIVE RejNTTPolyWith(_, _)
RejNTTPolyWith(seed, cands) ==
  LET s == G(seed, 3 * cands)
      acc == FoldLeft(LAMBDA a, i : IF Len(a) = N THEN a ELSE
                 LET v == CoeffFromThreeBytes(s[3 * i + 1], s[3 * i + 2], s[3 * i + 3])
                 IN IF v # Bot THEN Append(a, v) ELSE a,
               << >>, [i \in 1 .. cands |-> i - 1])
  IN IF Len(acc) = N THEN TLCEval([j \in Idx |-> acc[j + 1]]) ELSE RejNTTPolyWith(seed, 2 * cands)
RejNTTPoly(seed) == RejNTTPolyWith(seed, N + 24)

\* Algorithm 31
RECURSIVE RejBoundedPolyWith(_, _)
RejBoundedPolyWith(seed, nbytes) ==
  LET s == H(seed, nbytes)
      acc == FoldLeft(LAMBDA a, i : IF Len(a) >= N THEN a ELSE
                 LET z0 == CoeffFromHalfByte(s[i] % 16)
                     z1 == CoeffFromHalfByte(s[i] \div 16)
                     a1 == IF z0 # Bot THEN Append(a, z0) ELSE a
                 IN IF z1 # Bot /\ Len(a1) < N THEN Append(a1, z1) ELSE a1,
               << >>, [i \in 1 .. nbytes |-> i])
  IN IF Len(acc) = N THEN TLCEval([j \in Idx |-> acc[j + 1]]) ELSE RejBoundedPolyWith(seed, 2 * nbytes)
RejBoundedPoly(seed) == RejBoundedPolyWith(seed, 2 * N + 32)

\* Algorithm 32: A[r][s] from rho || IntegerToBytes(s,1) || IntegerToBytes(r,1)
ExpandA(rho) == TLCEval([r \in 0 .. KK - 1 |-> TLCEval([s \in 0 .. LL - 1 |-> RejNTTPoly(rho \o << s, r >>)])])
\* Algorithm 33
IntToBytes2(x) == << x % 256, (x \div 256) % 256 >>
ExpandS(rhop) ==
  [s1 |-> TLCEval([r \in 0 .. LL - 1 |-> RejBoundedPoly(rhop \o IntToBytes2(r))]),
   s2 |-> TLCEval([r \in 0 .. KK - 1 |-> RejBoundedPoly(rhop \o IntToBytes2(r + LL))])]
\* Algorithm 34
ExpandMask(rho2, mu) == TLCEval([r \in 0 .. LL - 1 |->
      LET v == H(rho2 \o IntToBytes2(mu + r), NB * ZBITS) IN BitUnpack(v, GAMMA1 - 1, GAMMA1)])
=======================================================================
