---------------------------- MODULE ImplBoundFns ----------------------------
(* Layer I, transfer functions.  ImplBounds.tla is the abstract-interpretation state machine over the implementation's lazy     *)
(* 32-bit arithmetic.  The state is a pipeline stage of one call site and a SOUND upper  *)
(* bound on max |coefficient| at that stage; each action is the transfer function of the *)
(* code at that stage.  Invariants: every i32 intermediate stays below 2^31 and the      *)
(* documented precondition of every kernel holds -- for ALL inputs in the call site's    *)
(* range, including adversarial ones (the response vector of a signature under           *)
(* verification).  The same transfer functions are used by TraceRing to check the        *)
(* magnitudes REPORTED by the instrumented code (mechanism M4), which binds this model   *)
(* to where the code actually reduces.                                                    *)
EXTENDS Integers, TLC

CONSTANTS L, K,
          COPYIN_REDUCES      \* TRUE: inv_ntt reduces on copy-in (the code after fix ed4d81c); FALSE: the pinned tree

Q == 8380417
MAXI == 2147483647
P16 == 65536
PRE32 == 2143289344            \* |a| < PRE32 : partial_reduce32 / full_reduce32 / center_mod
PRE64X == 67058539             \* |x| < PRE64X : to_mont (partial_reduce64(x << 32))
CeilDiv(a, b) == (a \div b) + (IF a % b = 0 THEN 0 ELSE 1)
Max2(a, b) == IF a > b THEN a ELSE b
SatAdd(a, b) == IF a > MAXI - b THEN MAXI ELSE a + b
\* |mont_reduce(x*y)| for |x| <= A, |y| <= B:  (|xy| + 2^31 q) / 2^32  (Apalache: MontContract)
Mont(A, B) == (Q \div 2) + 1 + CeilDiv(A, P16) * CeilDiv(B, P16)
\* |partial_reduce32(a)| for |a| <= A
PR32B(A) == 4194304 + (CeilDiv(A, 8388608) + 1) * 8191
\* forward NTT: every layer adds one Montgomery product with a zeta in [0, q)
RECURSIVE Fwd(_, _)
Fwd(b, n) == IF n = 0 THEN b ELSE Fwd(SatAdd(b, Mont(Q, b)), n - 1)
ToMontOut == 2 * Q - 1                          \* |partial_reduce64(x << 32)| < 2q  (Apalache: PR64Contract)
MvmOut == L * Mont(Q, ToMontOut)                \* sum of L products A[i][j][n] * u_mont[j][n]
CHat == Fwd(1, 8)                               \* NTT of the challenge (coefficients in {-1, 0, 1})
\* relational bounds used by the trace specification
InvCopy(arg) == IF COPYIN_REDUCES THEN PR32B(arg) ELSE arg
InvLayer(copy, twolen) == copy * twolen          \* after the layer with butterfly distance len (twolen = 2 len)
=======================================================================
