---------------------------- MODULE Rounding ----------------------------
(* Algorithms 35-40, as the mathematical definitions (no bit tricks).              *)
EXTENDS Ring

\* Algorithm 35; returns <<r1, r0>>
Power2Round(r) == LET rp == r % Q
                      r0 == ModPM(rp, 2^D)
                  IN << (rp - r0) \div 2^D, r0 >>
\* Algorithm 36; returns <<r1, r0>>
Decompose(r) == LET rp == r % Q
                    r0 == ModPM(rp, 2 * GAMMA2)
                IN IF rp - r0 = Q - 1 THEN << 0, r0 - 1 >>
                   ELSE << (rp - r0) \div (2 * GAMMA2), r0 >>
HighBits(r) == Decompose(r)[1]                                   \* Algorithm 37
LowBits(r)  == Decompose(r)[2]                                   \* Algorithm 38
MakeHint(z, r) == IF HighBits(r) # HighBits(r + z) THEN 1 ELSE 0 \* Algorithm 39
UseHint(h, r) ==                                                 \* Algorithm 40
  LET d == Decompose(r)
  IN IF h = 1 /\ d[2] > 0 THEN (d[1] + 1) % M2G
     ELSE IF h = 1 /\ d[2] <= 0 THEN (d[1] - 1) % M2G
     ELSE d[1]

HighBitsPoly(p)  == TLCEval([n \in Idx |-> HighBits(p[n])])
LowBitsPoly(p)   == TLCEval([n \in Idx |-> LowBits(p[n])])
UseHintPoly(h, p) == TLCEval([n \in Idx |-> UseHint(h[n], p[n])])
MakeHintPoly(z, r) == TLCEval([n \in Idx |-> MakeHint(z[n], r[n])])
PolyWeight(p) == LET RECURSIVE W(_, _)
                     W(n, acc) == IF n = N THEN acc ELSE W(n + 1, acc + p[n])
                 IN W(0, 0)
RECURSIVE VecWeightFrom(_, _, _, _)
VecWeightFrom(v, i, len, acc) == IF i = len THEN acc ELSE VecWeightFrom(v, i + 1, len, acc + PolyWeight(v[i]))
VecWeight(v, len) == VecWeightFrom(v, 0, len, 0)
=======================================================================
