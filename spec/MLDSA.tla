---------------------------- MODULE MLDSA ----------------------------
(* FIPS 204 Algorithms 1-8.  Each internal algorithm is given twice:                *)
(*  - as one expression (KeyGenInternal, VerifyInternal; SignInternal is a loop and *)
(*    is given as a recursive operator), the literal reading of the pseudocode;     *)
(*  - as a sequence of *stage* operators (prefixes KG, SG, VF) that a state machine       *)
(*    applies one per action (`st' = Stage(st)`), which is how TLC evaluates the    *)
(*    real parameter sets in about a second (DESIGN section 10).  The rejection     *)
(*    loop of Algorithm 7 is one group of actions per attempt.                      *)
(* MC_ToyStaged checks the two forms equal on a reduced instance.                   *)
EXTENDS Sampling

\* ---------------------------------------------------------------- external layer
Modes == {"pure", "SHA256", "SHA512", "SHAKE128"}
OID(ph) == CASE ph = "SHA256"   -> << 6, 9, 96, 134, 72, 1, 101, 3, 4, 2, 1 >>
             [] ph = "SHA512"   -> << 6, 9, 96, 134, 72, 1, 101, 3, 4, 2, 3 >>
             [] ph = "SHAKE128" -> << 6, 9, 96, 134, 72, 1, 101, 3, 4, 2, 11 >>
PreHash(ph, M) == CASE ph = "SHA256"   -> SHA256(M)
                    [] ph = "SHA512"   -> SHA512(M)
                    [] ph = "SHAKE128" -> SHAKE128x32(M)
\* M' of Algorithms 2/3 (line 10/5) and 4/5 (line 23/18); requires Len(ctx) <= 255
FormatMsg(mode, ctx, M) ==
  IF mode = "pure" THEN << 0, Len(ctx) >> \o ctx \o M
  ELSE << 1, Len(ctx) >> \o ctx \o OID(mode) \o PreHash(mode, M)
CtxOK(ctx) == Len(ctx) <= 255

\* ---------------------------------------------------------------- Algorithm 6
KG0(xi) ==
  LET hh == H(xi \o << KK, LL >>, 128)
      rho == SubSeq(hh, 1, 32)
      es == ExpandS(SubSeq(hh, 33, 96))
  IN [rho |-> rho, K |-> SubSeq(hh, 97, 128), s1 |-> es.s1, s2 |-> es.s2, A |-> ExpandA(rho)]
KG1(s) ==
  LET s1h == TLCEval([j \in 0 .. LL - 1 |-> NTT(ModQPoly(s.s1[j]))])
      t == TLCEval([i \in 0 .. KK - 1 |-> PolyAdd(InvNTT(RowDot(s.A[i], s1h)), ModQPoly(s.s2[i]))])
  IN [rho |-> s.rho, K |-> s.K, s1 |-> s.s1, s2 |-> s.s2,
      t1 |-> TLCEval([i \in 0 .. KK - 1 |-> TLCEval([n \in Idx |-> Power2Round(t[i][n])[1]])]),
      t0 |-> TLCEval([i \in 0 .. KK - 1 |-> TLCEval([n \in Idx |-> Power2Round(t[i][n])[2]])])]
KG2(s) ==
  LET pk == PkEncode(s.rho, s.t1)
      tr == H(pk, 64)
  IN [pk |-> pk, sk |-> SkEncode(s.rho, s.K, tr, s.s1, s.s2, s.t0)]
KeyGenInternal(xi) == KG2(KG1(KG0(xi)))

\* ---------------------------------------------------------------- Algorithm 7
\* lines 1-8
SG0(sk, Mp, rnd) ==
  LET d == SkDecode(sk)
      mu == H(d.tr \o Mp, 64)
  IN [A |-> ExpandA(d.rho), mu |-> mu, rho2 |-> H(d.K \o rnd \o mu, 64), kappa |-> 0, att |-> 0,
      s1h |-> TLCEval([i \in 0 .. LL - 1 |-> NTT(ModQPoly(d.s1[i]))]),
      s2h |-> TLCEval([i \in 0 .. KK - 1 |-> NTT(ModQPoly(d.s2[i]))]),
      t0h |-> TLCEval([i \in 0 .. KK - 1 |-> NTT(ModQPoly(d.t0[i]))])]
\* lines 11-15: y, w, w1, c~
SGA(s) ==
  LET y == ExpandMask(s.rho2, s.kappa)
      yh == TLCEval([j \in 0 .. LL - 1 |-> NTT(ModQPoly(y[j]))])
      w == TLCEval([i \in 0 .. KK - 1 |-> InvNTT(RowDot(s.A[i], yh))])
      w1 == TLCEval([i \in 0 .. KK - 1 |-> HighBitsPoly(w[i])])
  IN [s EXCEPT !.att = s.att + 1] @@ [y |-> y, w |-> w, ct |-> H(s.mu \o W1Encode(w1), CTLEN)]
\* lines 16-23: c, cs1, cs2, z, r0 and the two norms of the first validity check
SGB(s) ==
  LET ch == NTT(SampleInBall(s.ct))
      cs1 == TLCEval([j \in 0 .. LL - 1 |-> InvNTT(MultiplyNTT(ch, s.s1h[j]))])
      cs2 == TLCEval([i \in 0 .. KK - 1 |-> InvNTT(MultiplyNTT(ch, s.s2h[i]))])
      z == TLCEval([j \in 0 .. LL - 1 |-> PolyAdd(ModQPoly(s.y[j]), cs1[j])])
      wcs2 == TLCEval([i \in 0 .. KK - 1 |-> PolySub(s.w[i], cs2[i])])
      r0 == TLCEval([i \in 0 .. KK - 1 |-> LowBitsPoly(wcs2[i])])
  IN s @@ [ch |-> ch, z |-> z, wcs2 |-> wcs2, zn |-> VecNorm(z, LL), r0n |-> VecNorm(r0, KK)]
Reject1(s) == s.zn >= GAMMA1 - BETA \/ s.r0n >= GAMMA2 - BETA
\* lines 25-28: ct0, h and the second validity check
SGC(s) ==
  LET ct0 == TLCEval([i \in 0 .. KK - 1 |-> InvNTT(MultiplyNTT(s.ch, s.t0h[i]))])
      h == TLCEval([i \in 0 .. KK - 1 |-> MakeHintPoly(PolyNeg(ct0[i]), PolyAdd(s.wcs2[i], ct0[i]))])
  IN s @@ [h |-> h, ct0n |-> VecNorm(ct0, KK), wt |-> VecWeight(h, KK)]
Reject2(s) == s.ct0n >= GAMMA2 \/ s.wt > OMEGA
\* line 31 (kappa advances by l on every iteration)
SGKeep(s) == [A |-> s.A, mu |-> s.mu, rho2 |-> s.rho2, kappa |-> s.kappa + LL, att |-> s.att,
              s1h |-> s.s1h, s2h |-> s.s2h, t0h |-> s.t0h]
\* line 33
SGEncode(s) == SigEncode(s.ct, TLCEval([j \in 0 .. LL - 1 |-> CenterPoly(s.z[j])]), s.h)

RECURSIVE SignLoop(_)
SignLoop(s) == LET b == SGB(SGA(s)) IN
               IF Reject1(b) THEN SignLoop(SGKeep(b))
               ELSE LET c == SGC(b) IN IF Reject2(c) THEN SignLoop(SGKeep(c)) ELSE SGEncode(c)
SignInternal(sk, Mp, rnd) == SignLoop(SG0(sk, Mp, rnd))

\* ---------------------------------------------------------------- Algorithm 8
VF0(pk, sig) == LET p == PkDecode(pk)  s == SigDecode(sig)
                IN [rho |-> p.rho, t1 |-> p.t1, ct |-> s.ct, z |-> s.z, hok |-> s.hok, h |-> s.h,
                    zn |-> VecNorm(s.z, LL)]
VF1(s, pk, Mp) == s @@ [A |-> ExpandA(s.rho), mu |-> H(H(pk, 64) \o Mp, 64), c |-> SampleInBall(s.ct)]
VF2(s) == s @@ [zh  |-> TLCEval([j \in 0 .. LL - 1 |-> NTT(ModQPoly(s.z[j]))]),
                ch  |-> NTT(s.c),
                t1h |-> TLCEval([i \in 0 .. KK - 1 |-> NTT(ScalePoly(s.t1[i], 2^D))])]
VF3(s) == s @@ [wa |-> TLCEval([i \in 0 .. KK - 1 |->
                          InvNTT(PolySub(RowDot(s.A[i], s.zh), MultiplyNTT(s.ch, s.t1h[i])))])]
VF4(s) == s @@ [ct2 |-> H(s.mu \o W1Encode(TLCEval([i \in 0 .. KK - 1 |-> UseHintPoly(s.h[i], s.wa[i])])), CTLEN)]
\* line 3 / line 13
VFEarly(s)   == ~s.hok \/ s.zn >= GAMMA1 - BETA       \* rejects without lattice arithmetic
VFVerdict(s) == s.hok /\ s.zn < GAMMA1 - BETA /\ s.ct2 = s.ct
VerifyInternal(pk, Mp, sig) ==
  LET a == VF0(pk, sig) IN
  IF VFEarly(a) THEN FALSE ELSE VFVerdict(VF4(VF3(VF2(VF1(a, pk, Mp)))))

\* ---------------------------------------------------------------- Algorithms 2-5
\* (Algorithm 1 is KeyGenInternal on 32 bytes from the RBG; an RBG failure is "bottom".)
Sign(sk, M, ctx, mode, rnd)   == IF CtxOK(ctx) THEN SignInternal(sk, FormatMsg(mode, ctx, M), rnd) ELSE << >>
Verify(pk, M, sig, ctx, mode) == CtxOK(ctx) /\ VerifyInternal(pk, FormatMsg(mode, ctx, M), sig)
=======================================================================
