---------------------------- MODULE Params ----------------------------
(* FIPS 204 parameter record (Tables 1 and 2) as TLA+ constants, so that the same  *)
(* modules are model-checked exhaustively on toy instances and *evaluated* by TLC  *)
(* on ML-DSA-44/65/87.  KK, LL stand for the standard's k, l (K is the key seed).  *)
EXTENDS Integers, Sequences, FiniteSets, TLC

CONSTANTS Q,        \* modulus
          N,        \* ring degree (256)
          ZETA,     \* primitive 2N-th root of unity mod Q (1753)
          D,        \* dropped bits of t
          KK, LL,   \* matrix dimensions k x l
          ETA, TAU, GAMMA1, GAMMA2, OMEGA,
          LAMBDAB   \* collision strength of c~ (bits)

RECURSIVE BitLen(_)
BitLen(x) == IF x = 0 THEN 0 ELSE 1 + BitLen(x \div 2)          \* bitlen of Section 2.3

BETA    == TAU * ETA
M2G     == (Q - 1) \div (2 * GAMMA2)                             \* m of Algorithm 40
T1BITS  == BitLen(Q - 1) - D
ETABITS == BitLen(2 * ETA)
ZBITS   == 1 + BitLen(GAMMA1 - 1)
W1BITS  == BitLen(M2G - 1)
CTLEN   == LAMBDAB \div 4
NB      == N \div 8                                              \* bytes per coefficient bit (32)

\* byte lengths, from the formulas in the headers of Algorithms 22-28
PKLEN  == 32 + NB * KK * T1BITS
SKLEN  == 32 + 32 + 64 + NB * ((LL + KK) * ETABITS + D * KK)
SIGLEN == CTLEN + LL * NB * ZBITS + OMEGA + KK
W1LEN  == NB * KK * W1BITS

Idx == 0 .. N - 1
Abs(x) == IF x < 0 THEN -x ELSE x
MaxI(a, b) == IF a > b THEN a ELSE b
MinI(a, b) == IF a < b THEN a ELSE b

\* well-formedness of a parameter record (checked by every configuration)
ParamsOK ==
  /\ Q > 2 /\ N >= 2 /\ D >= 1 /\ KK >= 1 /\ LL >= 1
  /\ ETA >= 1 /\ TAU >= 1 /\ TAU <= N
  /\ (Q - 1) % (2 * GAMMA2) = 0
  /\ BETA < GAMMA2 /\ BETA < GAMMA1
  /\ OMEGA >= 1 /\ OMEGA + KK < 256
=======================================================================
