---- MODULE MC_Bounds ----
EXTENDS ImplBounds
====
