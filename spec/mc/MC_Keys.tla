---------------------------- MODULE MC_Keys ----------------------------
(* ImplKeys: the key structs hold NTT-domain, Montgomery-form precomputes instead of   *)
(* the FIPS byte strings; serialisation inverts them.  The inversion is exact iff the  *)
(* following facts hold, checked here for EVERY field value at real size:               *)
(*   K1  t1 * 2^d <= q - 1 for every 10-bit t1, so the canonical residue of t1*2^d is   *)
(*       the integer itself and (t1 * 2^d) >> d = t1       (public-key into_bytes);     *)
(*   K2  every s in [-eta, eta] and every t0 in (-2^(d-1), 2^(d-1)] is recovered from    *)
(*       its canonical residue x = s mod q by "x - q if x > q/2"  (private-key          *)
(*       into_bytes, get_public_key);                                                    *)
(*   K3  BitPack/BitUnpack field arithmetic: b - (b - s) = s, and b - s fits bitlen(a+b)*)
(*       bits for s in [-a, b], for the three (a, b) shapes of the key encodings;       *)
(*   K4  the acceptance rule of private-key deserialisation (C10): a c-bit field f      *)
(*       decodes into [-eta, eta] iff f <= 2*eta.                                        *)
(* and NTT^-1(NTT(x)) = x on a full-range polynomial (the transform is a bijection).    *)
EXTENDS Rounding
K1 == \A t1 \in 0 .. 2^T1BITS - 1 : t1 * 2^D <= Q - 1 /\ ((t1 * 2^D) % Q) \div 2^D = t1
Recover(x) == IF x > Q \div 2 THEN x - Q ELSE x
K2 == /\ \A s \in (-ETA) .. ETA : Recover(s % Q) = s
      /\ \A t \in (-(2^(D - 1)) + 1) .. 2^(D - 1) : Recover(t % Q) = t
Shapes == { << ETA, ETA >>, << 2^(D - 1) - 1, 2^(D - 1) >>, << GAMMA1 - 1, GAMMA1 >> }
K3 == \A ab \in { << ETA, ETA >>, << 2^(D - 1) - 1, 2^(D - 1) >> } : \A s \in (-ab[1]) .. ab[2] :
        /\ ab[2] - s >= 0 /\ ab[2] - s < 2^BitLen(ab[1] + ab[2]) /\ ab[2] - (ab[2] - s) = s
K4 == \A f \in 0 .. 2^ETABITS - 1 : ((ETA - f >= -ETA) /\ (ETA - f <= ETA)) <=> (f <= 2 * ETA)
Extremal == [n \in Idx |-> IF n % 2 = 0 THEN Q - 1 ELSE (n * 32749) % Q]
K5 == InvNTT(NTT(Extremal)) = Extremal /\ NTT(InvNTT(Extremal)) = Extremal
VARIABLES done
Init == done = FALSE
Next == ~done /\ done' = TRUE
Spec == Init /\ [][Next]_done
KeysExact == K1 /\ K2 /\ K3 /\ K4 /\ K5
=======================================================================
