CONSTANTS MaxDepth = 5 MaxHandles = 5 Emit = FALSE
SPECIFICATION MSpec
VIEW MView
CONSTRAINT Bound
INVARIANTS TypeOK DroppedIsZero HonestVerifies SigFunctional SerInjective NoLongContext RngDiscipline PkInterchangeable
PROPERTIES ErrorCreatesNothing VerifyMeansIssued
CHECK_DEADLOCK FALSE
