CONSTANTS MaxDepth = 5 MaxHandles = 5 Emit = FALSE Msgs = {"m1"}
SPECIFICATION MSpec
VIEW MView
CONSTRAINT Bound
INVARIANTS TypeOK DroppedIsZero HonestVerifies SigFunctional SerInjective FmtInjective CrossInterface NoLongContext RngDiscipline PkInterchangeable
PROPERTIES ErrorCreatesNothing VerifyMeansIssued
CHECK_DEADLOCK FALSE
