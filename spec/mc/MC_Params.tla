---------------------------- MODULE MC_Params ----------------------------
(* The parameter records of spec/Params.tla reproduce Tables 1 and 2 of FIPS 204:      *)
(* derived byte lengths equal the published literals, beta, the NTT constants and the  *)
(* zeta table entries quoted in the standard (Appendix B: zetas[1] = 4808194, ...).    *)
EXTENDS Codec
CONSTANT SET
Lens == CASE SET = 44 -> << 1312, 2560, 2420 >> [] SET = 65 -> << 1952, 4032, 3309 >> [] SET = 87 -> << 2592, 4896, 4627 >>
Betas == CASE SET = 44 -> 78 [] SET = 65 -> 196 [] SET = 87 -> 120
ParamsMatchTables ==
  /\ ParamsOK /\ FieldOK
  /\ << PKLEN, SKLEN, SIGLEN >> = Lens /\ BETA = Betas
  /\ Q = 2^23 - 2^13 + 1 /\ NINV = 8347681 /\ BitLen(Q - 1) = 23
  /\ Zeta(0) = 1 /\ Zeta(1) = 4808194 /\ Zeta(2) = 3765607 /\ Zeta(128) = 1753 /\ Zeta(255) = 7648983
  /\ W1LEN = NB * KK * (IF GAMMA2 = 95232 THEN 6 ELSE 4) /\ M2G = (IF GAMMA2 = 95232 THEN 44 ELSE 16)
  /\ ZBITS = (IF GAMMA1 = 131072 THEN 18 ELSE 20) /\ ETABITS = (IF ETA = 2 THEN 3 ELSE 4) /\ T1BITS = 10
VARIABLES done
Init == done = FALSE
Next == ~done /\ done' = TRUE
Spec == Init /\ [][Next]_done
=======================================================================
