---------------------------- MODULE MC_Features ----------------------------
(* C17: the configuration space of the crate and the semantics of its cfg gates.          *)
(* A configuration is a non-empty subset of the three parameter-set features, with or     *)
(* without `default-rng`, with or without `dudect`: 7 x 2 x 2 = 28.  For each, the model  *)
(* says which public items exist.  TLC enumerates the configurations (one initial state   *)
(* each) and emits them; the driver builds every one and the trace specification          *)
(* (TraceFeatures) requires all of them present, clean, and behaviourally equal to the    *)
(* default configuration on every enabled set.                                             *)
EXTENDS Integers, FiniteSets, Sequences, TLC, Json
SetsF == {44, 65, 87}
Configs == { [sets |-> s, rng |-> r, dudect |-> d] : s \in (SUBSET SetsF) \ {{}}, r \in BOOLEAN, d \in BOOLEAN }
\* public items of a configuration
Items(c) == { << "module", s >> : s \in c.sets } \cup { << "reexport", n >> : n \in {"CryptoRng", "RngCore", "RngError", "Ph"} }   \* in every configuration
            \cup { << "keygen_from_seed", s >> : s \in c.sets } \cup { << "try_keygen_with_rng", s >> : s \in c.sets }
            \cup { << "try_sign_with_rng", s >> : s \in c.sets } \cup { << "verify", s >> : s \in c.sets }
            \cup { << "_internal_sign", s >> : s \in c.sets }
            \cup (IF c.rng THEN { << "try_keygen", s >> : s \in c.sets } \cup { << "try_sign", s >> : s \in c.sets } ELSE {})
            \cup (IF c.dudect THEN { << "dudect_keygen_sign_with_rng", s >> : s \in c.sets } ELSE {})
Default == [sets |-> SetsF, rng |-> TRUE, dudect |-> FALSE]
Name(c) == [sets |-> [i \in 1 .. 3 |-> IF << 44, 65, 87 >>[i] \in c.sets THEN 1 ELSE 0], rng |-> c.rng, dudect |-> c.dudect]
VARIABLES cfg
Init == cfg \in Configs
Next == UNCHANGED cfg
Spec == Init /\ [][Next]_cfg
\* gate semantics: items only ever depend on the gates named (sanity of the model), 28 configurations
GateSemantics ==
  /\ Cardinality(Configs) = 28 /\ Default \in Configs
  /\ \A s \in SetsF : (<< "module", s >> \in Items(cfg)) <=> (s \in cfg.sets)
  /\ \A s \in cfg.sets : (<< "try_keygen", s >> \in Items(cfg)) <=> cfg.rng
  /\ \A s \in cfg.sets : (<< "dudect_keygen_sign_with_rng", s >> \in Items(cfg)) <=> cfg.dudect
  /\ PrintT(<< "CONFIG", ToJson(Name(cfg)) >>)
=======================================================================
