---------------------------- MODULE MC_ToyRing ----------------------------
(* The NTT of Algorithms 41/42 is a ring isomorphism R_q -> T_q at toy size:         *)
(*   NTT^-1(NTT(a)) = a  for EVERY a,                                                 *)
(*   NTT^-1(NTT(a) o NTT(b)) = a * b (schoolbook, the definition) for every a and     *)
(*   every b of a spanning family (all monomials, two dense polynomials, -1),         *)
(* which by bilinearity fixes the product map.  Exhaustive over a when Sample = 0,    *)
(* else over Sample random polynomials per root (larger toy sets).  Also checks the   *)
(* zeta table against Algorithm 43 and f = N^-1.                                      *)
EXTENDS Ring, Randomization
CONSTANTS Sample

Monomials == { [i \in Idx |-> IF i = p THEN 1 ELSE 0] : p \in Idx }
Dense == { [i \in Idx |-> (3 * i * i + 5 * i + 7) % Q], [i \in Idx |-> Q - 1 - i], [i \in Idx |-> Q - 1] }
Bs == Monomials \cup Dense

VARIABLES a0, ok, phase
vars == << a0, ok, phase >>
Init == a0 \in 0 .. Q - 1 /\ ok = TRUE /\ phase = "root"
CheckOne(a) ==
  LET ah == NTT(a) IN
  /\ InvNTT(ah) = a
  /\ \A b \in Bs : InvNTT(MultiplyNTT(ah, NTT(b))) = Schoolbook(a, b)
  /\ InvNTT(AddNTT(ah, NTT(ZeroPoly))) = a
Polys == IF Sample = 0 THEN { f \in [Idx -> 0 .. Q - 1] : f[0] = a0 }
         ELSE { [f EXCEPT ![0] = a0] : f \in RandomSubset(Sample, [Idx -> 0 .. Q - 1]) }
Step == /\ phase = "root"
        /\ \E a \in Polys : ok' = CheckOne(a)
        /\ phase' = "done" /\ UNCHANGED a0
Spec == Init /\ [][Step]_vars
ProductIsNegacyclic == ok
TablesOK == /\ FieldOK
            /\ \A i \in 0 .. N - 1 : Zeta(i) = PowMod(ZETA, BitRev(i))
            /\ BitRev(1) = N \div 2 /\ \A i \in 0 .. N - 1 : BitRev(BitRev(i)) = i
=======================================================================
