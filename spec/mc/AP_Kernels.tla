---------------------------- MODULE AP_Kernels ----------------------------
(* Contracts of the integer kernels whose arguments do not fit TLC's 32-bit integers,  *)
(* discharged symbolically by Apalache over their WHOLE documented input ranges        *)
(* (one-step checks: Init chooses the inputs, Step applies the kernels).                *)
(*   mont_reduce      -2^31 q <= a <= (2^31 - 1) q   =>  r * 2^32 == a (mod q), -q < r < q *)
(*   partial_reduce64 a = x * 2^32, |x| < 67058539   =>  r == a (mod q), |r| < 2q          *)
(*   partial_reduce32 |a| < 2143289344               =>  r == a (mod q), |r| < q           *)
(*   decompose (gamma2 = (q-1)/32) multiply-shift HighBits = Decompose's r1 on all of Z_q  *)
EXTENDS Integers
VARIABLES
  \* @type: Int;
  a,
  \* @type: Int;
  x,
  \* @type: Int;
  b,
  \* @type: Int;
  r,
  \* @type: Int;
  rm,
  \* @type: Int;
  r64,
  \* @type: Int;
  r32,
  \* @type: Int;
  hi,
  \* @type: Bool;
  done
Q == 8380417
P22 == 4194304
P23 == 8388608
P31 == 2147483648
P32 == 4294967296
P48 == 281474976710656
QINV == 58728449
MM == P48 \div Q
\* (a as i32): the low 32 bits as a signed value
S32(v) == ((v + P31) % P32) - P31
Mont(v) == LET t == S32(S32(v) * QINV) IN (v - t * Q) \div P32
PR64(v) == LET x1 == v \div P23
               v1 == v - x1 * Q
               x2 == v1 \div P23
               v2 == v1 - x2 * Q
               qq == (v2 * MM) \div P48
           IN v2 - qq * Q
PR32(v) == v - ((v + P22) \div P23) * Q
G2 == 261888
Dec32Hi(rp) == (((((rp + 127) \div 128) * 1025) + 2097152) \div 4194304) % 16
ModPM(m, al) == LET t == m % al IN IF t > al \div 2 THEN t - al ELSE t
SpecHi(rp) == LET r0 == ModPM(rp, 2 * G2) IN IF rp - r0 = Q - 1 THEN 0 ELSE (rp - r0) \div (2 * G2)

Init == /\ a \in Int /\ a >= -(P31 * Q) /\ a <= (P31 - 1) * Q
        /\ x \in Int /\ x > -67058539 /\ x < 67058539
        /\ b \in Int /\ b > -2143289344 /\ b < 2143289344
        /\ r \in Int /\ r >= 0 /\ r < Q
        /\ rm = 0 /\ r64 = 0 /\ r32 = 0 /\ hi = 0 /\ done = FALSE
Stutter == done /\ UNCHANGED << a, x, b, r, rm, r64, r32, hi, done >>
\* one kernel per next-state relation (apalache-mc --next=...), so each query contains one kernel only
NextMont == (~done /\ rm' = Mont(a) /\ done' = TRUE /\ UNCHANGED << a, x, b, r, r64, r32, hi >>) \/ Stutter
NextPR64 == (~done /\ r64' = PR64(x * P32) /\ done' = TRUE /\ UNCHANGED << a, x, b, r, rm, r32, hi >>) \/ Stutter
NextPR32 == (~done /\ r32' = PR32(b) /\ done' = TRUE /\ UNCHANGED << a, x, b, r, rm, r64, hi >>) \/ Stutter
NextDec  == (~done /\ hi' = Dec32Hi(r) /\ done' = TRUE /\ UNCHANGED << a, x, b, r, rm, r64, r32 >>) \/ Stutter
Next == NextMont
MontContract == done => (rm < Q /\ rm > -Q /\ (rm * P32 - a) % Q = 0)
PR64Contract == done => (r64 < 2 * Q /\ r64 > -2 * Q /\ (r64 - x * P32) % Q = 0)
PR32Contract == done => (r32 < Q /\ r32 > -Q /\ (r32 - b) % Q = 0)
DecContract  == done => hi = SpecHi(r)
\* a deliberately wrong contract (non-vacuity: Apalache must find a counterexample)
MontTooTight == done => (rm < Q - 1 /\ rm > -Q + 1)
=======================================================================
