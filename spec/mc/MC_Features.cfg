SPECIFICATION Spec
INVARIANT GateSemantics
CHECK_DEADLOCK FALSE
