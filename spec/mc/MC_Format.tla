---------------------------- MODULE MC_Format ----------------------------
(* Injectivity of the message representative M' of Algorithms 2-5 over a bounded byte *)
(* universe, with the one-byte length field SCALED DOWN to modulus LM so that the     *)
(* wrap-around that the 255-byte limit prevents is inside the bound:                   *)
(*   M' = dom || (|ctx| mod LM) || ctx || body,  body = M (pure) or OID(ph) || PH(M)   *)
(* With the guard |ctx| < LM no two distinct (mode, ctx, M) have the same M' (C06),    *)
(* and contexts never alias (C07).  Variants without the guard, without the domain     *)
(* byte or without the length byte must yield a counterexample (non-vacuity).          *)
(* Digests are modelled as injective fixed-length encodings of the message (a          *)
(* collision-free hash), of two different lengths that share a prefix.                 *)
EXTENDS Integers, Sequences, FiniteSets, TLC
CONSTANTS LM,         \* modulus of the length byte (256 in the standard)
          MaxCtx,     \* longest context explored (> LM to include the wrap)
          MaxMsg,     \* longest message explored
          Guard, DomByte, LenByte     \* which defences are on

Alpha == {0, 1, 2}
RECURSIVE SeqsUpTo(_)
SeqsUpTo(n) == IF n = 0 THEN {<< >>} ELSE LET s == SeqsUpTo(n - 1) IN s \cup { Append(x, a) : x \in { y \in s : Len(y) = n - 1 }, a \in Alpha }
FModes == {"pure", "phA", "phB"}
OIDs(m) == IF m = "phA" THEN << 9, 1 >> ELSE << 9, 3 >>
Pad(M, n) == M \o [i \in 1 .. (n - Len(M)) |-> 7]
Digest(m, M) == IF m = "phA" THEN << Len(M) >> \o Pad(M, MaxMsg)                \* "32-byte" digest
                ELSE << Len(M) >> \o Pad(M, MaxMsg) \o << Len(M) >>             \* "64-byte" digest, same prefix
Body(m, M) == IF m = "pure" THEN M ELSE OIDs(m) \o Digest(m, M)
Format(m, ctx, M) ==
  (IF DomByte THEN << IF m = "pure" THEN 0 ELSE 1 >> ELSE << >>)
  \o (IF LenByte THEN << Len(ctx) % LM >> ELSE << >>) \o ctx \o Body(m, M)
Accepts(ctx) == Guard => Len(ctx) < LM                                           \* the 255-byte rule, scaled

VARIABLES x, y, phase
vars == << x, y, phase >>
Tuples == { [m |-> m, ctx |-> c, M |-> M] : m \in FModes, c \in SeqsUpTo(MaxCtx), M \in SeqsUpTo(MaxMsg) }
\* messages that mimic the other mode's formatted input are in the universe as long as MaxMsg allows;
\* the crafted ones are added explicitly
Crafted == { [m |-> "pure", ctx |-> c, M |-> OIDs(p) \o Digest(p, M)] : p \in {"phA", "phB"}, c \in SeqsUpTo(1), M \in SeqsUpTo(1) }
Init == x \in Tuples \cup Crafted /\ y = x /\ phase = 0
Pick == phase = 0 /\ phase' = 1 /\ y' \in Tuples \cup Crafted /\ UNCHANGED x
Spec == Init /\ [][Pick]_vars
Injective ==
  (phase = 1 /\ Accepts(x.ctx) /\ Accepts(y.ctx) /\ Format(x.m, x.ctx, x.M) = Format(y.m, y.ctx, y.M)) => x = y
=======================================================================
