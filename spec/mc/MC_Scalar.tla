---------------------------- MODULE MC_Scalar ----------------------------
(* Certification of the piecewise descriptions of ScalarTables.tla against the          *)
(* definitions, over the whole domain (STRIDE = 1) or on every piece boundary (+-2) and *)
(* every STRIDE-th chunk; then emission of the certified tables as JSON for the harness. *)
EXTENDS ScalarTables, Json
CONSTANTS NCH, STRIDE, OUT       \* OUT: path of the JSON file to write ("" = none)

CH == (2^24 + NCH - 1) \div NCH
Near(pieces) == UNION { { p.lo - 2, p.lo - 1, p.lo, p.lo + 1, p.hi - 1, p.hi, p.hi + 1, p.hi + 2 } : p \in { pieces[i] : i \in DOMAIN pieces } }
KP2R == (Q - 1 + 2^(D - 1) - 1) \div 2^D
OKr(r) == /\ EvalIn(P2RPieces, r, 0, KP2R) = Power2Round(r)
          /\ EvalIn(DecPieces, r, 0, M2G) = Decompose(r)
          /\ EvalIn(UH1Pieces, r, 0, 2 * M2G)[1] = UseHint(1, r)
          /\ EvalIn(CModPieces, r, 1, 2)[2] = ModPM(r, Q)
OKv(v) == EvalIn(C3Pieces, v, 1, 4)[2] = CoeffFromThreeBytes(v % 256, (v \div 256) % 256, v \div 65536)
Boundaries ==
  /\ Tiles(P2RPieces, 0, Q - 1, 0, KP2R)
  /\ Tiles(DecPieces, 0, Q - 1, 0, M2G)
  /\ Tiles(UH1Pieces, 0, Q - 1, 0, 2 * M2G)
  /\ Tiles(CModPieces, 0, Q - 1, 1, 2)
  /\ Tiles(C3Pieces, 0, 2^24 - 1, 1, 4)
  /\ \A r \in (Near(P2RPieces) \cup Near(DecPieces) \cup Near(UH1Pieces) \cup Near(CModPieces)) \cap (0 .. Q - 1) : OKr(r)
  /\ \A v \in Near(C3Pieces) \cap (0 .. 2^24 - 1) : OKv(v)
ChunkOK(c) == \A x \in (c * CH) .. MinI(2^24 - 1, (c + 1) * CH - 1) : OKv(x) /\ (x < Q => OKr(x))

Tables == [q |-> Q, d |-> D, gamma2 |-> GAMMA2, eta |-> ETA, m |-> M2G,
           power2round |-> P2RPieces, decompose |-> DecPieces, usehint1 |-> UH1Pieces, centermod |-> CModPieces,
           coeff3 |-> C3Pieces, halfbyte |-> HalfByteTable, bot |-> Bot]

VARIABLES grp, chunk, ok
vars == << grp, chunk, ok >>
NG == 32
Init == grp = -1 /\ chunk = -1 /\ ok = Boundaries
Group == grp = -1 /\ grp' \in 0 .. NG - 1 /\ UNCHANGED << chunk, ok >>
Fan == /\ grp >= 0 /\ chunk = -1
       /\ \E c \in { x \in 0 .. NCH - 1 : x % NG = grp /\ ((x \div NG) % STRIDE = 0) } : chunk' = c /\ ok' = ChunkOK(c)
       /\ UNCHANGED grp
Emit == /\ grp = -1 /\ OUT # "" /\ JsonSerialize(OUT, Tables) /\ grp' = -2 /\ UNCHANGED << chunk, ok >>
Spec == Init /\ [][Group \/ Fan \/ Emit]_vars
Certified == ok
=======================================================================
