CONSTANTS LM = 3 MaxCtx = 4 MaxMsg = 2 Guard = TRUE DomByte = TRUE LenByte = TRUE
SPECIFICATION Spec
INVARIANT Injective
CHECK_DEADLOCK FALSE
