---------------------------- MODULE MC_Sampling ----------------------------
(* Shape lemmas of the samplers of Section 7.3, for EVERY hash output (the XOF is        *)
(* quantified away: all byte streams of a reduced alphabet are enumerated).              *)
(*  - SampleInBall (Algorithm 29) at N = 8, tau = 2: whenever it returns, the result has *)
(*    exactly tau coefficients in {1, -1} and zeros elsewhere (this is what makes        *)
(*    ||c s||_inf <= beta, the bound MC_ToySign's Ball and the rejection tests rely on); *)
(*    when the stream is exhausted fewer than tau candidates were <= N - tau; on streams  *)
(*    without rejected candidates every one of the 112 ball elements has the same number *)
(*    of preimages (Fisher-Yates is unbiased).                                           *)
(*  - CoeffFromHalfByte (Algorithm 15): every value of [-eta, eta] has the same number   *)
(*    of preimages among the accepted half-bytes (3 for eta = 2, 1 for eta = 4).         *)
EXTENDS Sampling, FiniteSetsExt

CONSTANTS NCAND       \* candidate bytes after the 8 sign bytes
CandVals == 0 .. N                 \* N stands for every byte value > N-1 (always rejected)
Stream(sg, cs) == << sg, 0, 0, 0, 0, 0, 0, 0 >> \o cs
Weight(c) == Cardinality({ i \in Idx : c[i] # 0 })
Shape(c) == /\ Weight(c) = TAU /\ \A i \in Idx : c[i] \in {0, 1, Q - 1}
\* candidates that EVERY step accepts (j <= N - tau): tau of them guarantee termination within the stream
Usable(cs) == Cardinality({ p \in 1 .. NCAND : cs[p] <= N - TAU })

VARIABLES pre, res
vars == << pre, res >>
Init == /\ pre \in { << sg, c1, c2 >> : sg \in 0 .. (2^TAU - 1), c1 \in CandVals, c2 \in CandVals }
        /\ res = << >>
Draw == /\ res = << >>
        /\ \E rest \in [1 .. NCAND - 2 -> CandVals] :
             LET cs == << pre[2], pre[3] >> \o rest
                 r == SampleInBallFrom(Stream(pre[1], cs), 8 + NCAND)
             IN res' = << cs, r[1], r[2] >>
        /\ UNCHANGED pre
Next == Draw
Spec == Init /\ [][Next]_vars

BallShape == res # << >> => (IF res[3] THEN Shape(res[2]) ELSE Usable(res[1]) < TAU)
\* the signs come from the first tau bits of the stream, in the order the positions are fixed
\* unbiasedness on reject-free streams: the map (j_{N-tau}, .., j_{N-1}, signs) -> c has fibres of equal size
Fibres ==
  LET exact == { << sg, j1, j2 >> : sg \in 0 .. 3, j1 \in 0 .. N - 2, j2 \in 0 .. N - 1 }
      img(t) == SampleInBallFrom(Stream(t[1], << t[2], t[3] >>), 10)[1]
      imgs == { img(t) : t \in exact }
  IN /\ Cardinality(imgs) = 4 * ((N * (N - 1)) \div 2)
     /\ \A c \in imgs : Cardinality({ t \in exact : img(t) = c }) = 2
HalfByteUnbiased ==
  LET acc == { b \in 0 .. 15 : CoeffFromHalfByte(b) # Bot }
  IN /\ { CoeffFromHalfByte(b) : b \in acc } = (-ETA) .. ETA
     /\ \A v \in (-ETA) .. ETA : Cardinality({ b \in acc : CoeffFromHalfByte(b) = v }) = (IF ETA = 2 THEN 3 ELSE 1)
ASSUME TAU = 2 /\ N = 8 /\ Fibres /\ HalfByteUnbiased
=======================================================================
