CONSTANTS Q = 8380417 N = 8 ZETA = 5178923 D = 13 KK = 3 LL = 2 ETA = 4 TAU = 2 GAMMA1 = 64 GAMMA2 = 95232 OMEGA = 1 LAMBDAB = 128
CONSTANTS NCAND = 4
SPECIFICATION Spec
INVARIANT BallShape
CHECK_DEADLOCK FALSE
