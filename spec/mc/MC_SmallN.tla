---------------------------- MODULE MC_SmallN ----------------------------
(* The WHOLE of FIPS 204 (hashing, sampling, encodings, rejection loop) on a reduced      *)
(* ring degree: q = 8380417 as in the standard, n = 8, zeta = 1753^32 (a primitive 16th   *)
(* root of unity), so that every sampler and codec of the specification runs unchanged    *)
(* and TLC can execute complete KeyGen -> Sign -> Verify flows for every (seed, message,  *)
(* rnd, mode) of a small universe.  Checked on every flow:                                 *)
(*   S1  the STAGED state machine (one action per stage, one action group per attempt of  *)
(*       the rejection loop: what TraceF uses to judge the real code) computes exactly     *)
(*       the one-expression forms KeyGenInternal / SignInternal / VerifyInternal;          *)
(*   S2  Verify(pk, M, Sign(sk, M, ctx, mode, rnd), ctx, mode) = TRUE  (C01 through the    *)
(*       full specification, not only its algebraic core);                                 *)
(*   S3  the signature has length SIGLEN and SigEncode(SigDecode(sig)) = sig; the keys     *)
(*       have lengths PKLEN / SKLEN and SkAccept holds; skDecode(skEncode) round-trips;    *)
(*   S4  flipping one byte of the signature, or using another context or mode, makes       *)
(*       Verify return FALSE (C05/C06 through the specification).                          *)
EXTENDS MLDSA
CONSTANT NSEEDS

Seed(i) == [j \in 1 .. 32 |-> IF j = 1 THEN i ELSE 0]
Seeds == { Seed(i) : i \in 1 .. NSEEDS }
Msgs  == { << >>, << 1, 2, 3 >> }
Rnds  == { Seed(0), Seed(9) }
SModes == {"pure", "SHA256"}

VARIABLES xi, msg, rnd, mode, pc, st, keys, sig, ok
vars == << xi, msg, rnd, mode, pc, st, keys, sig, ok >>
Init == /\ xi \in Seeds /\ msg \in Msgs /\ rnd \in Rnds /\ mode \in SModes
        /\ pc = "kg0" /\ st = [x |-> 0] /\ keys = [x |-> 0] /\ sig = << >> /\ ok = TRUE
Ctx == << 7 >>
Mp == FormatMsg(mode, Ctx, msg)
Go(a, b, v) == pc = a /\ pc' = b /\ st' = v /\ UNCHANGED << xi, msg, rnd, mode, keys, sig, ok >>
Next ==
  \/ Go("kg0", "kg1", KG0(xi))
  \/ Go("kg1", "kg2", KG1(st))
  \/ /\ pc = "kg2" /\ pc' = "sg0" /\ keys' = KG2(st) /\ st' = [x |-> 0]
     /\ ok' = (ok /\ keys' = KeyGenInternal(xi) /\ Len(keys'.pk) = PKLEN /\ Len(keys'.sk) = SKLEN /\ SkAccept(keys'.sk)
                  /\ LET d == SkDecode(keys'.sk) IN SkEncode(d.rho, d.K, d.tr, d.s1, d.s2, d.t0) = keys'.sk)
     /\ UNCHANGED << xi, msg, rnd, mode, sig >>
  \/ Go("sg0", "sga", SG0(keys.sk, Mp, rnd))
  \/ Go("sga", "sgb", SGA(st))
  \/ Go("sgb", "sgc", SGB(st))
  \/ /\ pc = "sgc" /\ Reject1(st)  /\ PrintT("REJECT1 taken") /\ Go("sgc", "sga", SGKeep(st))
  \/ /\ pc = "sgc" /\ ~Reject1(st) /\ Go("sgc", "sgd", SGC(st))
  \/ /\ pc = "sgd" /\ Reject2(st)  /\ PrintT("REJECT2 taken") /\ Go("sgd", "sga", SGKeep(st))
  \/ /\ pc = "sgd" /\ ~Reject2(st) /\ pc' = "vf0" /\ sig' = SGEncode(st) /\ st' = [x |-> 0]
     /\ ok' = (ok /\ sig' = SignInternal(keys.sk, Mp, rnd) /\ Len(sig') = SIGLEN
                  /\ LET s == SigDecode(sig') IN s.hok /\ SigEncode(s.ct, s.z, s.h) = sig')
     /\ UNCHANGED << xi, msg, rnd, mode, keys >>
  \/ Go("vf0", "vf1", VF0(keys.pk, sig))
  \/ /\ pc = "vf1" /\ VFEarly(st) /\ pc' = "bad" /\ ok' = FALSE /\ UNCHANGED << xi, msg, rnd, mode, keys, sig, st >>
  \/ /\ pc = "vf1" /\ ~VFEarly(st) /\ Go("vf1", "vf2", VF1(st, keys.pk, Mp))
  \/ Go("vf2", "vf3", VF2(st))
  \/ Go("vf3", "vf4", VF3(st))
  \/ Go("vf4", "vf5", VF4(st))
  \/ /\ pc = "vf5" /\ pc' = "neg"
     /\ ok' = (ok /\ VFVerdict(st) /\ VerifyInternal(keys.pk, Mp, sig) /\ Verify(keys.pk, msg, sig, Ctx, mode))
     /\ UNCHANGED << xi, msg, rnd, mode, keys, sig, st >>
  \/ /\ pc = "neg" /\ pc' = "done"
     /\ ok' = (ok /\ ~Verify(keys.pk, msg, [sig EXCEPT ![1] = (sig[1] + 1) % 256], Ctx, mode)
                  /\ ~Verify(keys.pk, msg, [sig EXCEPT ![Len(sig)] = (sig[Len(sig)] + 1) % 256], Ctx, mode)
                  /\ ~Verify(keys.pk, msg, sig, << 8 >>, mode)
                  /\ ~Verify(keys.pk, msg, sig, Ctx, IF mode = "pure" THEN "SHA256" ELSE "pure")
                  /\ ~Verify(keys.pk, Append(msg, 0), sig, Ctx, mode))
     /\ UNCHANGED << xi, msg, rnd, mode, keys, sig, st >>
Spec == Init /\ [][Next]_vars
AllFlowsOK == ok
=======================================================================
