CONSTANTS LM = 3 MaxCtx = 2 MaxMsg = 2 Guard = TRUE DomByte = FALSE LenByte = TRUE
SPECIFICATION Spec
INVARIANT Injective
CHECK_DEADLOCK FALSE
