---------------------------- MODULE MC_ToySign ----------------------------
(* Completeness of ML-DSA at toy size, exhaustively: for EVERY key of a reduced       *)
(* parameter set, EVERY mask vector y and EVERY challenge c of the tau-ball, if the   *)
(* rejection loop of Algorithm 7 accepts the attempt then Algorithm 8 recomputes the  *)
(* signer's w1 (hence the same commitment hash) and the norm test passes.  The hash   *)
(* functions are quantified away: all their possible outputs (y, c) are enumerated.   *)
(* The arithmetic is the specification's own (Ring.tla, Rounding.tla);                   *)
(* l = 1; k = 1 (MC_ToySign.cfg) and k = 2 (MC_ToySign_k2.cfg: vector-shaped t, w,    *)
(* hints and norms).  CanTerminate: for every key SOME attempt is accepted, i.e. the   *)
(* rejection loop is not forced to run forever by the key alone.                       *)
EXTENDS Rounding

CONSTANTS KeyStride     \* explore every KeyStride-th s1 (1 = all)

Rows  == 0 .. KK - 1
Small == [Idx -> (-ETA) .. ETA]
Masks == [Idx -> (-GAMMA1 + 1) .. GAMMA1]
Ball  == { [i \in Idx |-> IF i = p THEN s ELSE 0] : p \in Idx, s \in {1, Q - 1} }    \* tau = 1
\* two matrices (k x 1) and six s2 vectors; with k = 1 these are the sets the first version of this module used
AS  == { [r \in Rows |-> [i \in Idx |-> (3 * i * i + 5 * i + 7 + 4 * r * (i + 1)) % Q]],
         [r \in Rows |-> [i \in Idx |-> (11 * i + 2 + 6 * r * (i * i + 1)) % Q]] }
S2L == << [i \in Idx |-> 0], [i \in Idx |-> 1], [i \in Idx |-> -1], [i \in Idx |-> IF i % 2 = 0 THEN 1 ELSE -1],
          [i \in Idx |-> IF i = 0 THEN 1 ELSE 0], [i \in Idx |-> IF i = N - 1 THEN -1 ELSE 0] >>
S2S == { [r \in Rows |-> S2L[((j + 3 * r) % 6) + 1]] : j \in 0 .. 5 }
Code(f) == LET RECURSIVE C(_) C(i) == IF i = N THEN 0 ELSE (f[i] + ETA) + (2 * ETA + 1) * C(i + 1) IN C(0)

VARIABLES a, s1, s2, phase, res
vars == << a, s1, s2, phase, res >>
Init == /\ a \in AS /\ s1 \in { f \in Small : Code(f) % KeyStride = 0 } /\ s2 \in S2S
        /\ phase = "key" /\ res = [acc |-> FALSE, ok |-> TRUE, why |-> "none", wt |-> 0]

\* Products are taken in R_q by the DEFINITION (schoolbook, Ring.tla); MC_ToyRing proves, at this
\* size and exhaustively, that the NTT formulation of the standard computes the same product.
\* (The NTT path costs TLC about 30x more per attempt, which would shrink the explored key set.)
Prod(f, g) == Schoolbook(ModQPoly(f), ModQPoly(g))
V(F(_)) == TLCEval([r \in Rows |-> F(r)])             \* a vector of k polynomials

Attempt(y, c) ==
  LET t   == V(LAMBDA r : PolyAdd(Prod(a[r], s1), ModQPoly(s2[r])))
      t1  == V(LAMBDA r : [i \in Idx |-> Power2Round(t[r][i])[1]])
      t0  == V(LAMBDA r : [i \in Idx |-> Power2Round(t[r][i])[2]])
      w   == V(LAMBDA r : Prod(a[r], y))
      w1  == V(LAMBDA r : HighBitsPoly(w[r]))
      cs1 == Prod(c, s1)
      cs2 == V(LAMBDA r : Prod(c, s2[r]))
      ct0 == V(LAMBDA r : Prod(c, t0[r]))
      z   == PolyAdd(ModQPoly(y), cs1)
      wcs2 == V(LAMBDA r : PolySub(w[r], cs2[r]))
      r0  == V(LAMBDA r : LowBitsPoly(wcs2[r]))
      h   == V(LAMBDA r : MakeHintPoly(PolyNeg(ct0[r]), PolyAdd(wcs2[r], ct0[r])))
      rej1 == PolyNorm(z) >= GAMMA1 - BETA \/ VecNorm(r0, KK) >= GAMMA2 - BETA
      rej2 == VecNorm(ct0, KK) >= GAMMA2 \/ VecWeight(h, KK) > OMEGA
      \* the verifier's side (Algorithm 8 lines 9-10)
      w1p == V(LAMBDA r : UseHintPoly(h[r], PolySub(Prod(a[r], CenterPoly(z)), Prod(c, ScalePoly(t1[r], 2^D)))))
      vok == PolyNorm(z) < GAMMA1 - BETA /\ w1p = w1
  IN [acc |-> ~rej1 /\ ~rej2, ok |-> (rej1 \/ rej2) \/ vok,
      why |-> IF rej1 THEN "norm" ELSE IF rej2 THEN "hint" ELSE "none", wt |-> VecWeight(h, KK)]

Sign == /\ phase = "key"
        /\ \E y \in Masks, c \in Ball : res' = Attempt(y, c)
        /\ phase' = "done"
        /\ UNCHANGED << a, s1, s2 >>
\* classification of the outcomes reached (cheap guards on the computed result): the coverage
\* report must show every class taken, otherwise the instance would be degenerate
CAcceptMaxWeight == phase = "done" /\ res.acc /\ res.wt = OMEGA /\ phase' = "classified" /\ UNCHANGED << a, s1, s2, res >>
CAcceptNoHint    == phase = "done" /\ res.acc /\ res.wt = 0     /\ phase' = "classified" /\ UNCHANGED << a, s1, s2, res >>
CRejectNorm      == phase = "done" /\ res.why = "norm"          /\ phase' = "classified" /\ UNCHANGED << a, s1, s2, res >>
CRejectHint      == phase = "done" /\ res.why = "hint"          /\ phase' = "classified" /\ UNCHANGED << a, s1, s2, res >>
Next == Sign \/ CAcceptMaxWeight \/ CAcceptNoHint \/ CRejectNorm \/ CRejectHint
Spec == Init /\ [][Next]_vars
KeysOnly == FALSE /\ UNCHANGED vars                   \* NEXT of the all-keys configuration: only CanTerminate, on EVERY key

Complete == res.ok                                    \* the property (C01 at toy size)
CanTerminate == phase = "key" => \E y \in Masks, c \in Ball : Attempt(y, c).acc
=======================================================================
