---------------------------- MODULE MC_ToySign ----------------------------
(* Completeness of ML-DSA at toy size, exhaustively: for EVERY key of a reduced       *)
(* parameter set, EVERY mask vector y and EVERY challenge c of the tau-ball, if the   *)
(* rejection loop of Algorithm 7 accepts the attempt then Algorithm 8 recomputes the  *)
(* signer's w1 (hence the same commitment hash) and the norm test passes.  The hash   *)
(* functions are quantified away: all their possible outputs (y, c) are enumerated.   *)
(* The arithmetic is the specification's own (Ring.tla, Rounding.tla);                   *)
(* k = l = 1 here, MC_ToySign2 repeats the check with k = 2, l = 1 on a subset.       *)
EXTENDS Rounding

CONSTANTS KeyStride     \* explore every KeyStride-th s1 (1 = all)

Small == [Idx -> (-ETA) .. ETA]
Masks == [Idx -> (-GAMMA1 + 1) .. GAMMA1]
Ball  == { [i \in Idx |-> IF i = p THEN s ELSE 0] : p \in Idx, s \in {1, Q - 1} }    \* tau = 1
AS  == { [i \in Idx |-> (3 * i * i + 5 * i + 7) % Q], [i \in Idx |-> (11 * i + 2) % Q] }
S2S == { [i \in Idx |-> 0], [i \in Idx |-> 1], [i \in Idx |-> -1], [i \in Idx |-> IF i % 2 = 0 THEN 1 ELSE -1],
         [i \in Idx |-> IF i = 0 THEN 1 ELSE 0], [i \in Idx |-> IF i = N - 1 THEN -1 ELSE 0] }
Code(f) == LET RECURSIVE C(_) C(i) == IF i = N THEN 0 ELSE (f[i] + ETA) + (2 * ETA + 1) * C(i + 1) IN C(0)

VARIABLES a, s1, s2, phase, res
vars == << a, s1, s2, phase, res >>
Init == /\ a \in AS /\ s1 \in { f \in Small : Code(f) % KeyStride = 0 } /\ s2 \in S2S
        /\ phase = "key" /\ res = [acc |-> FALSE, ok |-> TRUE, why |-> "none", wt |-> 0]

\* Products are taken in R_q by the DEFINITION (schoolbook, Ring.tla); MC_ToyRing proves, at this
\* size and exhaustively, that the NTT formulation of the standard computes the same product.
\* (The NTT path costs TLC about 30x more per attempt, which would shrink the explored key set.)
Prod(f, g) == Schoolbook(ModQPoly(f), ModQPoly(g))

Attempt(y, c) ==
  LET t   == PolyAdd(Prod(a, s1), ModQPoly(s2))
      t1  == TLCEval([i \in Idx |-> Power2Round(t[i])[1]])
      t0  == TLCEval([i \in Idx |-> Power2Round(t[i])[2]])
      w   == Prod(a, y)
      w1  == HighBitsPoly(w)
      cs1 == Prod(c, s1)
      cs2 == Prod(c, s2)
      ct0 == Prod(c, t0)
      z   == PolyAdd(ModQPoly(y), cs1)
      wcs2 == PolySub(w, cs2)
      r0  == LowBitsPoly(wcs2)
      h   == MakeHintPoly(PolyNeg(ct0), PolyAdd(wcs2, ct0))
      rej1 == PolyNorm(z) >= GAMMA1 - BETA \/ PolyNorm(r0) >= GAMMA2 - BETA
      rej2 == PolyNorm(ct0) >= GAMMA2 \/ PolyWeight(h) > OMEGA
      \* the verifier's side (Algorithm 8 lines 9-10)
      wap == PolySub(Prod(a, CenterPoly(z)), Prod(c, ScalePoly(t1, 2^D)))
      w1p == UseHintPoly(h, wap)
      vok == PolyNorm(z) < GAMMA1 - BETA /\ w1p = w1
  IN [acc |-> ~rej1 /\ ~rej2, ok |-> (rej1 \/ rej2) \/ vok,
      why |-> IF rej1 THEN "norm" ELSE IF rej2 THEN "hint" ELSE "none", wt |-> PolyWeight(h)]

Sign == /\ phase = "key"
        /\ \E y \in Masks, c \in Ball : res' = Attempt(y, c)
        /\ phase' = "done"
        /\ UNCHANGED << a, s1, s2 >>
\* classification of the outcomes reached (cheap guards on the computed result): the coverage
\* report must show every class taken, otherwise the instance would be degenerate
CAcceptMaxWeight == phase = "done" /\ res.acc /\ res.wt = OMEGA /\ phase' = "classified" /\ UNCHANGED << a, s1, s2, res >>
CAcceptNoHint    == phase = "done" /\ res.acc /\ res.wt = 0     /\ phase' = "classified" /\ UNCHANGED << a, s1, s2, res >>
CRejectNorm      == phase = "done" /\ res.why = "norm"          /\ phase' = "classified" /\ UNCHANGED << a, s1, s2, res >>
CRejectHint      == phase = "done" /\ res.why = "hint"          /\ phase' = "classified" /\ UNCHANGED << a, s1, s2, res >>
Next == Sign \/ CAcceptMaxWeight \/ CAcceptNoHint \/ CRejectNorm \/ CRejectHint
Spec == Init /\ [][Next]_vars

Complete == res.ok                                    \* the property (C01 at toy size)
=======================================================================
