---------------------------- MODULE MC_API ----------------------------
(* Exhaustive exploration of Layer A over a small universe, and generation of        *)
(* behaviours (sequences of abstract calls) that the harness replays against the     *)
(* real library (mechanism M2a).  The history variable is hidden from the            *)
(* fingerprint by a VIEW.                                                             *)
EXTENDS API, Json

CONSTANTS MaxDepth,      \* bound on the number of calls
          MaxHandles,    \* bound on the number of key objects
          Emit,          \* TRUE: print every behaviour of length MaxDepth as one JSON line
          Msgs           \* message identities, e.g. {"m1", "m2"}

VARIABLES hist, nh
mvars == << keys, issued, sigof, ser, fmt, out, hist, nh >>
MView == << keys, issued, sigof, ser, fmt, nh, Len(hist) >>

MSets   == {44}
Seeds   == {"s1", "s2"}
\* context classes: identity and length (the lengths that matter: 0, the limit, just over it, 2^9)
Ctxs    == { [id |-> "c0", len |-> 0], [id |-> "c255", len |-> 255], [id |-> "c256", len |-> 256], [id |-> "c512", len |-> 512] }
MModes  == {"pure", "SHA512"}
Draws   == {"r1", "r2"}
\* the formatted message of an external triple is the triple itself (FormatMsg is injective: MC_Format); the internal
\* interface may be handed any M', in particular one that IS the format of an external triple, or a raw one
Fmt(mode, c, msg) == << mode, c.id, msg >>
Mps == { Fmt(mode, c, msg) : mode \in MModes, c \in { x \in Ctxs : x.len <= 255 }, msg \in Msgs } \cup { << "raw", "x", "x" >> }

MInit == AInit /\ hist = << >> /\ nh = 1
Rec(r) == hist' = Append(hist, r)
Room(n) == Cardinality(Handles) + n <= MaxHandles

MKeyGenSeed == \E set \in MSets, seed \in Seeds :
   /\ Room(2) /\ KeyGenSeed(set, seed, nh, nh + 1) /\ nh' = nh + 2
   /\ Rec([op |-> "KeyGenSeed", set |-> set, seed |-> seed, pk |-> nh, sk |-> nh + 1])
MKeyGenRng == \E set \in MSets, draw \in Seeds, fault \in Faults :
   /\ Room(2) /\ KeyGenRng(set, draw, fault, nh, nh + 1) /\ nh' = nh + 2
   /\ Rec([op |-> "KeyGenRng", set |-> set, draw |-> draw, fault |-> fault, pk |-> nh, sk |-> nh + 1, ok |-> out'.ok])
MSign == \E h \in Handles, msg \in Msgs, c \in Ctxs, mode \in MModes, draw \in Draws, fault \in Faults :
   /\ IsSk(h)
   /\ Sign(h, msg, c.id, c.len, mode, Fmt(mode, c, msg), draw, fault, SigKey(h, Fmt(mode, c, msg), draw))
   /\ UNCHANGED nh
   /\ Rec([op |-> "Sign", sk |-> h, msg |-> msg, ctx |-> c.id, ctxlen |-> c.len, mode |-> mode, draw |-> draw, fault |-> fault, ok |-> out'.ok])
\* verify an issued signature (referred to by the Sign call that produced it) under any key / message / context / mode
MVerify == \E h \in Handles, msg \in Msgs, c \in Ctxs, mode \in MModes, t \in issued :
   /\ IsPk(h)
   /\ Verify(h, msg, c.id, c.len, mode, Fmt(mode, c, msg), t[1])
   /\ UNCHANGED nh
   /\ Rec([op |-> "Verify", pk |-> h, msg |-> msg, ctx |-> c.id, ctxlen |-> c.len, mode |-> mode, sigof |-> t[1], res |-> out'.res])
\* the internal interface on the same universe of formatted messages (plus a raw one)
MSignInternal == \E h \in Handles, mp \in Mps, draw \in Draws :
   /\ IsSk(h)
   /\ SignInternal(h, mp, draw, SigKey(h, mp, draw))
   /\ UNCHANGED nh
   /\ Rec([op |-> "SignInternal", sk |-> h, mp |-> mp, draw |-> draw])
MVerifyInternal == \E h \in Handles, mp \in Mps, t \in issued :
   /\ IsPk(h)
   /\ VerifyInternal(h, mp, t[1])
   /\ UNCHANGED nh
   /\ Rec([op |-> "VerifyInternal", pk |-> h, mp |-> mp, sigof |-> t[1], res |-> out'.res])
MSer == \E h \in Handles :
   /\ Live(h) /\ Serialise(h, SerKey(h)) /\ UNCHANGED nh
   /\ Rec([op |-> "Ser", h |-> h])
MDeser == \E k \in DOMAIN ser :
   /\ Room(1) /\ Deserialise(k[1], k[2], ser[k], TRUE, nh) /\ nh' = nh + 1
   /\ Rec([op |-> "Deser", kind |-> k[1], of |-> k, h |-> nh])
MDerive == \E h \in Handles : /\ IsSk(h) /\ Room(1) /\ Derive(h, nh) /\ nh' = nh + 1 /\ Rec([op |-> "Derive", sk |-> h, pk |-> nh])
MClone  == \E h \in Handles : /\ Live(h) /\ Room(1) /\ Clone(h, nh) /\ nh' = nh + 1 /\ Rec([op |-> "Clone", h |-> h, h2 |-> nh])
MDrop   == \E h \in Handles : /\ Live(h) /\ Drop(h) /\ UNCHANGED nh /\ Rec([op |-> "Drop", h |-> h])

MDudect == \E fault \in Faults, at \in {0, 1} :
   /\ Dudect(fault, at) /\ UNCHANGED nh
   /\ Rec([op |-> "Dudect", fault |-> fault, at |-> at, ok |-> out'.ok])
MNext == MDudect \/ MKeyGenSeed \/ MKeyGenRng \/ MSign \/ MVerify \/ MSignInternal \/ MVerifyInternal \/ MSer \/ MDeser \/ MDerive \/ MClone \/ MDrop
MSpec == MInit /\ [][MNext]_mvars
Bound == Len(hist) <= MaxDepth

\* ---- properties
\* C07 / C12: a call that reports an error creates no object and issues no signature
ErrorCreatesNothing == [][ (out'.op \in {"Sign", "KeyGenRng", "Dudect"} /\ ~out'.ok) => (keys' = keys /\ issued' = issued) ]_mvars
\* C02/C05/C06 (ideal form): TRUE is returned only for exactly an issued tuple with a context within the limit
VerifyMeansIssued == [][ (out'.op = "Verify" /\ out'.res) => (\E t \in issued : t[2] \in Sets) ]_mvars
\* C07: no external operation succeeds with a context longer than 255 bytes, and none has a formatted message
NoLongContext == /\ \A k \in DOMAIN fmt : \E c \in Ctxs : c.id = k[2] /\ c.len <= 255
                 /\ (out.op = "Sign" /\ out.ok) => out.ctxlen <= 255
\* Sign = Sign_internal o FormatMsg and Verify = Verify_internal o FormatMsg at the level of the ideal functionality: a
\* signature issued through one interface is accepted through the other on the corresponding (mode, ctx, M) / M'
CrossInterface ==
  \A t \in issued : \A h \in Handles : \A mode \in MModes, c \in Ctxs, msg \in Msgs :
     (IsPk(h) /\ c.len <= 255) => (Verdict(h, c.len, Fmt(mode, c, msg), t[1]) = VerdictMp(h, Fmt(mode, c, msg), t[1]))
\* C12: randomness is requested at most once per call, through the fallible method only
RngDiscipline == ("rnglog" \in DOMAIN out) => out.rnglog \in (IF out.op = "Dudect" THEN {OneDraw, TwoDraws} ELSE {OneDraw, NoDraw})
\* C09/C11: all live public keys of one lineage and set are interchangeable (same verdict on every issued tuple)
PkInterchangeable ==
  \A h1, h2 \in Handles : (IsPk(h1) /\ IsPk(h2) /\ keys[h1].set = keys[h2].set /\ keys[h1].lin = keys[h2].lin) =>
     \A t \in issued : Verdict(h1, 0, t[4], t[1]) = Verdict(h2, 0, t[4], t[1])
\* emission of behaviours for replay
EmitBehaviour == (Emit /\ Len(hist) = MaxDepth) => PrintT(<< "REPLAY", ToJson(hist) >>)
=======================================================================
