---------------------------- MODULE MC_API ----------------------------
(* Exhaustive exploration of Layer A over a small universe, and generation of        *)
(* behaviours (sequences of abstract calls) that the harness replays against the     *)
(* real library (mechanism M2a).  The history variable is hidden from the            *)
(* fingerprint by a VIEW.                                                             *)
EXTENDS API, Json

CONSTANTS MaxDepth,      \* bound on the number of calls
          MaxHandles,    \* bound on the number of key objects
          Emit           \* TRUE: print every behaviour of length MaxDepth as one JSON line

VARIABLES hist, nh
mvars == << keys, issued, sigof, ser, out, hist, nh >>
MView == << keys, issued, sigof, ser, nh, Len(hist) >>

MSets   == {44}
Seeds   == {"s1", "s2"}
Msgs    == {"m1", "m2"}
\* context classes: identity and length (the lengths that matter: 0, the limit, just over it, 2^9)
Ctxs    == { [id |-> "c0", len |-> 0], [id |-> "c255", len |-> 255], [id |-> "c256", len |-> 256], [id |-> "c512", len |-> 512] }
MModes  == {"pure", "SHA512"}
Draws   == {"r1", "r2"}

MInit == AInit /\ hist = << >> /\ nh = 1
Rec(r) == hist' = Append(hist, r)
Room(n) == Cardinality(Handles) + n <= MaxHandles

MKeyGenSeed == \E set \in MSets, seed \in Seeds :
   /\ Room(2) /\ KeyGenSeed(set, seed, nh, nh + 1) /\ nh' = nh + 2
   /\ Rec([op |-> "KeyGenSeed", set |-> set, seed |-> seed, pk |-> nh, sk |-> nh + 1])
MKeyGenRng == \E set \in MSets, draw \in Seeds, fault \in Faults :
   /\ Room(2) /\ KeyGenRng(set, draw, fault, nh, nh + 1) /\ nh' = nh + 2
   /\ Rec([op |-> "KeyGenRng", set |-> set, draw |-> draw, fault |-> fault, pk |-> nh, sk |-> nh + 1, ok |-> out'.ok])
MSign == \E h \in Handles, msg \in Msgs, c \in Ctxs, mode \in MModes, draw \in Draws, fault \in Faults :
   /\ IsSk(h)
   /\ Sign(h, msg, c.id, c.len, mode, draw, fault, SigKey(h, msg, c.id, mode, draw))
   /\ UNCHANGED nh
   /\ Rec([op |-> "Sign", sk |-> h, msg |-> msg, ctx |-> c.id, ctxlen |-> c.len, mode |-> mode, draw |-> draw, fault |-> fault, ok |-> out'.ok])
\* verify an issued signature (referred to by the Sign call that produced it) under any key / message / context / mode
MVerify == \E h \in Handles, msg \in Msgs, c \in Ctxs, mode \in MModes, t \in issued :
   /\ IsPk(h)
   /\ Verify(h, msg, c.id, c.len, mode, t[1])
   /\ UNCHANGED nh
   /\ Rec([op |-> "Verify", pk |-> h, msg |-> msg, ctx |-> c.id, ctxlen |-> c.len, mode |-> mode, sigof |-> t[1], res |-> out'.res])
MSer == \E h \in Handles :
   /\ Live(h) /\ Serialise(h, SerKey(h)) /\ UNCHANGED nh
   /\ Rec([op |-> "Ser", h |-> h])
MDeser == \E k \in DOMAIN ser :
   /\ Room(1) /\ Deserialise(k[1], k[2], ser[k], TRUE, nh) /\ nh' = nh + 1
   /\ Rec([op |-> "Deser", kind |-> k[1], of |-> k, h |-> nh])
MDerive == \E h \in Handles : /\ IsSk(h) /\ Room(1) /\ Derive(h, nh) /\ nh' = nh + 1 /\ Rec([op |-> "Derive", sk |-> h, pk |-> nh])
MClone  == \E h \in Handles : /\ Live(h) /\ Room(1) /\ Clone(h, nh) /\ nh' = nh + 1 /\ Rec([op |-> "Clone", h |-> h, h2 |-> nh])
MDrop   == \E h \in Handles : /\ Live(h) /\ Drop(h) /\ UNCHANGED nh /\ Rec([op |-> "Drop", h |-> h])

MNext == MKeyGenSeed \/ MKeyGenRng \/ MSign \/ MVerify \/ MSer \/ MDeser \/ MDerive \/ MClone \/ MDrop
MSpec == MInit /\ [][MNext]_mvars
Bound == Len(hist) <= MaxDepth

\* ---- properties
\* C07 / C12: a call that reports an error creates no object and issues no signature
ErrorCreatesNothing == [][ (out'.op \in {"Sign", "KeyGenRng"} /\ ~out'.ok) => (keys' = keys /\ issued' = issued) ]_mvars
\* C02/C05/C06 (ideal form): TRUE is returned only for exactly an issued tuple with a context within the limit
VerifyMeansIssued == [][ (out'.op = "Verify" /\ out'.res) => (\E t \in issued : t[2] \in Sets) ]_mvars
\* C07: no operation succeeds with a context longer than 255 bytes
NoLongContext == \A t \in issued : \E c \in Ctxs : c.id = t[5] /\ c.len <= 255
\* C12: randomness is requested at most once per call, through the fallible method only
RngDiscipline == ("rnglog" \in DOMAIN out) => out.rnglog \in {OneDraw, NoDraw}
\* C09/C11: all live public keys of one lineage and set are interchangeable (same verdict on every issued tuple)
PkInterchangeable ==
  \A h1, h2 \in Handles : (IsPk(h1) /\ IsPk(h2) /\ keys[h1].set = keys[h2].set /\ keys[h1].lin = keys[h2].lin) =>
     \A t \in issued : Verdict(h1, t[4], t[5], 0, t[6], t[1]) = Verdict(h2, t[4], t[5], 0, t[6], t[1])
\* emission of behaviours for replay
EmitBehaviour == (Emit /\ Len(hist) = MaxDepth) => PrintT(<< "REPLAY", ToJson(hist) >>)
=======================================================================
