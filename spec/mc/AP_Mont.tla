---------------------------- MODULE AP_Mont ----------------------------
(* mont_reduce over its whole documented range, with the two wrap-arounds of the code   *)
(* ((a as i32) and the wrapping 32-bit multiplication by QINV) expressed through         *)
(* witnesses k1, k2 chosen in Init, so that the query is linear integer arithmetic:      *)
(*   alow = a - k1*2^32 in [-2^31, 2^31)         (a as i32)                               *)
(*   t    = alow*QINV - k2*2^32 in [-2^31, 2^31) (wrapping_mul)                           *)
(*   res  = (a - t*Q) >> 32                                                              *)
EXTENDS Integers
VARIABLES
  \* @type: Int;
  a,
  \* @type: Int;
  k1,
  \* @type: Int;
  k2,
  \* @type: Int;
  res,
  \* @type: Bool;
  done
Q == 8380417
P31 == 2147483648
P32 == 4294967296
QINV == 58728449
ALow == a - k1 * P32
T == ALow * QINV - k2 * P32
Init == /\ a \in Int /\ a >= -(P31 * Q) /\ a <= (P31 - 1) * Q
        /\ k1 \in Int /\ ALow >= -P31 /\ ALow < P31
        /\ k2 \in Int /\ T >= -P31 /\ T < P31
        /\ res = 0 /\ done = FALSE
Next == \/ /\ ~done /\ res' = (a - T * Q) \div P32 /\ done' = TRUE /\ UNCHANGED << a, k1, k2 >>
        \/ /\ done /\ UNCHANGED << a, k1, k2, res, done >>
\* exact division (the low word cancels), range and congruence
MontContract == done => /\ res * P32 = a - T * Q
                        /\ res < Q /\ res > -Q
\* the magnitude transfer function used by ImplBoundFns!Mont: |res| <= |a| / 2^32 + q/2 (+1 for rounding)
MontMagnitude == done => /\ res * P32 - a <= P31 * Q /\ a - res * P32 <= P31 * Q
                         /\ (a >= 0 => res * P32 <= a + P31 * Q) /\ (a <= 0 => -(res * P32) <= -a + P31 * Q)
MontTooTight == done => (res < Q - 1 /\ res > -Q + 1)
=======================================================================
