CONSTANTS LM = 2 MaxCtx = 2 MaxMsg = 2 Guard = FALSE DomByte = TRUE LenByte = TRUE
SPECIFICATION Spec
INVARIANT Injective
CHECK_DEADLOCK FALSE
