CONSTANTS Q = 8380417 N = 256 ZETA = 1753 D = 13 KK = 4 LL = 4 ETA = 2 TAU = 39 GAMMA1 = 131072 GAMMA2 = 95232 OMEGA = 80 LAMBDAB = 128
CONSTANTS NCH = 1024 STRIDE = 1
SPECIFICATION Spec
INVARIANT KernelsExact
CHECK_DEADLOCK FALSE
