CONSTANTS L = 7 K = 8 GAMMA1 = 524288 ETA = 2 TAU = 60 COPYIN_REDUCES = FALSE
SPECIFICATION Spec
INVARIANT NoOverflow
CHECK_DEADLOCK FALSE
