---------------------------- MODULE MC_Codec ----------------------------
(* Canonicity of the encodings of Section 7.1/7.2 at reduced size, EXHAUSTIVELY:        *)
(*  H1  for every byte string y of a hint section (k = 2, omega = 3, n = 8, bytes 0..7): *)
(*      Algorithm 21 accepts y  <=>  y is well-formed (declarative rule), and then       *)
(*      HintBitPack(HintBitUnpack(y)) = y   (no two strings decode to the same hint);    *)
(*  H2  for every hint vector h of weight <= omega: HintBitUnpack(HintBitPack(h)) = h;   *)
(*  B1  BitPack/BitUnpack are mutually inverse bijections between [-a, b]^n and the byte *)
(*      strings when a + b + 1 is a power of two ((a,b) = (1,2), (0,3)), for every       *)
(*      vector and every byte string;                                                    *)
(*  B2  for (a,b) = (eta,eta) = (2,2) (not a power of two): Unpack(Pack(w)) = w for      *)
(*      every in-range w, and the direct packers equal the literal ones through bit      *)
(*      strings (Algorithms 9-13) on every input.                                        *)
EXTENDS Codec

Bytes8 == 0 .. 7
HintYs(y1) == { << y1, y2, y3, y4, y5 >> : y2 \in Bytes8, y3 \in Bytes8, y4 \in Bytes8, y5 \in Bytes8 }
H1(y) == LET u == HintBitUnpack(y) IN
         /\ u.ok = HintWellFormed(y)
         /\ u.ok => HintBitPack(u.h) = y
Bits8 == [Idx -> {0, 1}]
H2(h0, h1) == LET h == [i \in 0 .. 1 |-> IF i = 0 THEN h0 ELSE h1] IN
              PolyWeight(h0) + PolyWeight(h1) <= OMEGA =>
                 LET u == HintBitUnpack(HintBitPack(h)) IN u.ok /\ u.h = h
AsFn(w) == [n \in Idx |-> w[n]]
B1w(w, a, b) == /\ AsFn(BitUnpack(BitPack(w, a, b), a, b)) = w
                /\ BitPack(w, a, b) = BitPackLit(w, a, b)
B1v(v, a, b) == /\ BitPack(BitUnpack(v, a, b), a, b) = v
                /\ AsFn(BitUnpack(v, a, b)) = AsFn(BitUnpackLit(v, a, b))
                /\ \A n \in Idx : BitUnpack(v, a, b)[n] >= -a /\ BitUnpack(v, a, b)[n] <= b

VARIABLES kind, root, ok
vars == << kind, root, ok >>
Init == /\ kind \in {"hinty", "hinth", "pack12", "unpack12", "simple03", "pack22"}
        /\ root \in 0 .. 7 /\ ok = TRUE
Check ==
  CASE kind = "hinty"    -> \A y \in HintYs(root) : H1(y)
    [] kind = "hinth"    -> \A h0 \in { f \in Bits8 : f[0] = root % 2 /\ f[1] = (root \div 2) % 2 /\ f[2] = root \div 4 /\ PolyWeight(f) <= OMEGA } :
                            \A h1 \in { f \in Bits8 : PolyWeight(f) <= OMEGA } : H2(h0, h1)
    [] kind = "pack12"   -> \A w \in { f \in [Idx -> -1 .. 2] : f[0] = (root % 4) - 1 /\ f[1] = (root \div 4) } : B1w(w, 1, 2)
    [] kind = "unpack12" -> \A v \in { << x, yb >> : x \in { t \in 0 .. 255 : t % 8 = root }, yb \in 0 .. 255 } : B1v(v, 1, 2)
    [] kind = "simple03" -> \A w \in { f \in [Idx -> 0 .. 3] : f[0] = root % 4 /\ f[1] = root \div 4 } :
                            /\ AsFn(SimpleBitUnpack(SimpleBitPack(w, 3), 3)) = w /\ SimpleBitPack(w, 3) = SimpleBitPackLit(w, 3)
    [] kind = "pack22"   -> \A w \in { f \in [Idx -> -2 .. 2] : f[0] = (root % 5) - 2 /\ f[7] = IF root >= 5 THEN 2 ELSE -2 } :
                            /\ AsFn(BitUnpack(BitPack(w, 2, 2), 2, 2)) = w /\ BitPack(w, 2, 2) = BitPackLit(w, 2, 2)
Step == /\ root >= 0 /\ ok' = Check /\ root' = -1 - root /\ UNCHANGED kind
Spec == Init /\ [][Step]_vars
Canonical == ok
=======================================================================
