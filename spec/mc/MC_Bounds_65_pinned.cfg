CONSTANTS L = 5 K = 6 GAMMA1 = 524288 ETA = 4 TAU = 49 COPYIN_REDUCES = FALSE
SPECIFICATION Spec
INVARIANT NoOverflow
CHECK_DEADLOCK FALSE
