CONSTANTS L = 4 K = 4 GAMMA1 = 131072 ETA = 2 TAU = 39 COPYIN_REDUCES = TRUE
SPECIFICATION Spec
INVARIANT NoOverflow
CHECK_DEADLOCK FALSE
