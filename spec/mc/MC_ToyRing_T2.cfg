CONSTANTS Q = 97 N = 8 ZETA = 8 D = 3 KK = 1 LL = 1 ETA = 2 TAU = 2 GAMMA1 = 16 GAMMA2 = 8 OMEGA = 3 LAMBDAB = 8
CONSTANTS Sample = 60
SPECIFICATION Spec
INVARIANTS ProductIsNegacyclic TablesOK
CHECK_DEADLOCK FALSE
