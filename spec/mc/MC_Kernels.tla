---------------------------- MODULE MC_Kernels ----------------------------
(* Every transcription of ImplKernels.tla equals the FIPS 204 definition on the whole   *)
(* domain it is used on (all of Z_q; the 32-bit reductions additionally on a grid over   *)
(* their documented input range and around every multiple of q).                          *)
EXTENDS ImplKernels
CONSTANTS NCH, STRIDE
CH == (Q + NCH - 1) \div NCH
OKr(r) == /\ P2RImpl(r) = Power2Round(r)
          /\ DecomposeImpl(r) = Decompose(r)
          /\ DecomposeImpl(r - Q) = Decompose(r) /\ DecomposeImpl(r + Q) = Decompose(r)
          /\ UseHintImpl(1, r) = UseHint(1, r) /\ UseHintImpl(0, r) = UseHint(0, r)
          /\ CenterMod(r) = ModPM(r, Q) /\ CenterMod(r - Q) = ModPM(r, Q)
          /\ FullReduce32(r + 254 * Q) = r /\ FullReduce32(r - 254 * Q) = r
          /\ LET p == PartialReduce32(r + 100 * Q) IN (p - r) % Q = 0 /\ p > -Q /\ p < Q
Small == /\ \A b \in 0 .. 15 : HalfByteImpl(b) = CoeffFromHalfByte(b)
         /\ \A k \in -255 .. 255 : \A e \in -3 .. 3 :
               LET a == k * Q + e IN Pre32(a) => (FullReduce32(a) = a % Q /\ CenterMod(a) = ModPM(a, Q))
         /\ \A a \in { 2143289343, -2143289343, 2143289342, -2143289342 } :
               Pre32(a) => LET p == PartialReduce32(a) IN (p - a) % Q = 0 /\ p > -Q /\ p < Q
ChunkOK(c) == \A r \in (c * CH) .. MinI(Q - 1, (c + 1) * CH - 1) : OKr(r)
VARIABLES grp, chunk, ok
vars == << grp, chunk, ok >>
NG == 32
Init == grp = -1 /\ chunk = -1 /\ ok = Small
Group == grp = -1 /\ grp' \in 0 .. NG - 1 /\ UNCHANGED << chunk, ok >>
Fan == /\ grp >= 0 /\ chunk = -1
       /\ \E c \in { x \in 0 .. NCH - 1 : x % NG = grp /\ ((x \div NG) % STRIDE = 0 \/ x = NCH - 1) } : chunk' = c /\ ok' = ChunkOK(c)
       /\ UNCHANGED grp
Spec == Init /\ [][Group \/ Fan]_vars
KernelsExact == ok
=======================================================================
