CONSTANTS MaxDepth = 14 MaxHandles = 8 Emit = TRUE Msgs = {"m1", "m2"}
SPECIFICATION MSpec
VIEW MView
CONSTRAINT Bound
INVARIANTS TypeOK DroppedIsZero EmitBehaviour
CHECK_DEADLOCK FALSE
