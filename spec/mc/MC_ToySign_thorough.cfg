CONSTANTS Q = 17 N = 4 ZETA = 2 D = 2 KK = 1 LL = 1 ETA = 1 TAU = 1 GAMMA1 = 4 GAMMA2 = 4 OMEGA = 1 LAMBDAB = 8
CONSTANTS KeyStride = 9
SPECIFICATION Spec
INVARIANT Complete
CHECK_DEADLOCK FALSE
