CONSTANTS Q = 8380417 N = 256 ZETA = 1753 D = 13 KK = 8 LL = 7 ETA = 2 TAU = 60 GAMMA1 = 524288 GAMMA2 = 261888 OMEGA = 75 LAMBDAB = 256
CONSTANTS SET = 87
SPECIFICATION Spec
INVARIANT ParamsMatchTables
CHECK_DEADLOCK FALSE
