CONSTANTS Q = 17 N = 2 ZETA = 4 D = 2 KK = 2 LL = 2 ETA = 1 TAU = 1 GAMMA1 = 4 GAMMA2 = 4 OMEGA = 1 LAMBDAB = 8
CONSTANTS KeyStride = 9 Mutant = "shortsum"
SPECIFICATION Spec
INVARIANT Complete

CHECK_DEADLOCK FALSE
