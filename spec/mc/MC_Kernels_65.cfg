CONSTANTS Q = 8380417 N = 256 ZETA = 1753 D = 13 KK = 6 LL = 5 ETA = 4 TAU = 49 GAMMA1 = 524288 GAMMA2 = 261888 OMEGA = 55 LAMBDAB = 192
CONSTANTS NCH = 1024 STRIDE = 16
SPECIFICATION Spec
INVARIANT KernelsExact
CHECK_DEADLOCK FALSE
