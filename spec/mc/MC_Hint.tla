---------------------------- MODULE MC_Hint ----------------------------
(* Whole-domain lemmas about the rounding functions of Section 7.4 at REAL size:      *)
(* for every r in Z_q (fanned out in chunks over successor states so that all         *)
(* workers are used)                                                                   *)
(*   L1  Power2Round reconstructs r and its parts are in range;                        *)
(*   L2  Decompose reconstructs r mod q, r0 in (-gamma2, gamma2], r1 in 0..m-1,        *)
(*       and the corner r+ - r0 = q-1 is mapped to (0, r0-1);                          *)
(*   L3  UseHint(MakeHint(z, r), r) = HighBits(r + z) for |z| <= gamma2 (Lemma 1 of    *)
(*       the Dilithium paper, the reason honest signatures verify: C01);               *)
(*   L4  flipping a hint bit always changes UseHint (the mechanism behind C05 for the  *)
(*       hint section), and UseHint stays in 0..m-1.                                    *)
EXTENDS Rounding
CONSTANTS NCH,       \* number of chunks Z_q is cut into
          STRIDE     \* check every STRIDE-th chunk (1 = exhaustive)

CH == (Q + NCH - 1) \div NCH
Zs == {0, 1, -1, 2, GAMMA2, -GAMMA2, GAMMA2 - 1, -(GAMMA2 - 1), GAMMA2 \div 2, -(GAMMA2 \div 3)}
L1(r) == LET p == Power2Round(r) IN
         /\ p[1] * 2^D + p[2] = r /\ p[2] > -(2^(D - 1)) /\ p[2] <= 2^(D - 1) /\ p[1] >= 0 /\ p[1] < 2^T1BITS
L2(r) == LET d == Decompose(r) IN
         /\ (d[1] * 2 * GAMMA2 + d[2]) % Q = r /\ d[1] >= 0 /\ d[1] < M2G /\ d[2] >= -GAMMA2 /\ d[2] <= GAMMA2
         /\ ((d[2] = -GAMMA2) <=> (r = Q - GAMMA2))            \* the corner is the only way to reach -gamma2
L3(r) == \A z \in Zs : UseHint(MakeHint(z % Q, r), r) = HighBits((r + z) % Q)
L4(r) == /\ UseHint(1, r) # UseHint(0, r) /\ UseHint(1, r) >= 0 /\ UseHint(1, r) < M2G /\ UseHint(0, r) = HighBits(r)
AllOK(c) == \A r \in (c * CH) .. MinI(Q - 1, (c + 1) * CH - 1) : L1(r) /\ L2(r) /\ L3(r) /\ L4(r)

VARIABLES grp, chunk, ok
vars == << grp, chunk, ok >>
NG == 32                              \* root -> NG groups -> chunks: the expensive step is spread over all workers
Init == grp = -1 /\ chunk = -1 /\ ok = TRUE
Group == grp = -1 /\ grp' \in 0 .. NG - 1 /\ UNCHANGED << chunk, ok >>
Fan == /\ grp >= 0 /\ chunk = -1
       /\ \E c \in { x \in 0 .. NCH - 1 : x % NG = grp /\ ((x \div NG) % STRIDE = 0 \/ x = NCH - 1) } : chunk' = c /\ ok' = AllOK(c)
       /\ UNCHANGED grp
Spec == Init /\ [][Group \/ Fan]_vars
LemmasHold == ok
=======================================================================
