CONSTANTS LM = 3 MaxCtx = 2 MaxMsg = 2 Guard = TRUE DomByte = TRUE LenByte = FALSE
SPECIFICATION Spec
INVARIANT Injective
CHECK_DEADLOCK FALSE
