---------------------------- MODULE MC_ToySignKL ----------------------------
(* MC_ToySign generalised to a k x l matrix with l > 1 (growth plan item 5): the     *)
(* secret s1, the mask y and the response z are VECTORS of l polynomials, every row *)
(* of A.y is a sum of l products, and the response norm is a vector norm.  The        *)
(* theorem is the same: for EVERY key, EVERY mask vector and EVERY challenge, an      *)
(* attempt accepted by Algorithm 7 is accepted by Algorithm 8 (Complete), and every   *)
(* key admits an accepted attempt (CanTerminate).  What l = 1 cannot distinguish and *)
(* this instance does: A[r][c] versus A[c][r], a sum over k instead of l terms, a     *)
(* norm taken over the first polynomial of z only, a challenge applied to s1[0] only. *)
(* The Mutant constant switches each of those slips on; the mutant configurations    *)
(* MUST violate Complete (non-vacuity of the theorem with respect to vector shape).   *)
(* N = 2 (q = 17, zeta = 4 a primitive 4th root of unity) keeps |Masks|^l enumerable. *)
EXTENDS Rounding

CONSTANTS KeyStride,    \* explore every KeyStride-th s1 vector (1 = all)
          Mutant        \* "none" | "transpose" | "shortsum" | "norm0" | "cs1first"

Rows  == 0 .. KK - 1
Cols  == 0 .. LL - 1
Small == [Idx -> (-ETA) .. ETA]
Masks == [Idx -> (-GAMMA1 + 1) .. GAMMA1]
Ball  == { [i \in Idx |-> IF i = p THEN s ELSE 0] : p \in Idx, s \in {1, Q - 1} }    \* tau = 1
AS  == { [r \in Rows |-> [c \in Cols |-> [i \in Idx |-> (3 * i * i + 5 * i + 7 + 4 * r * (i + 1) + 9 * c * (i + 2)) % Q]]],
         [r \in Rows |-> [c \in Cols |-> [i \in Idx |-> (11 * i + 2 + 6 * r * (i * i + 1) + 5 * c * c * (i + 1) + 3 * r * c) % Q]]] }
S2L == << [i \in Idx |-> 0], [i \in Idx |-> 1], [i \in Idx |-> -1], [i \in Idx |-> IF i % 2 = 0 THEN 1 ELSE -1],
          [i \in Idx |-> IF i = 0 THEN 1 ELSE 0], [i \in Idx |-> IF i = N - 1 THEN -1 ELSE 0] >>
S2S == { [r \in Rows |-> S2L[((j + 3 * r) % 6) + 1]] : j \in 0 .. 5 }
Code(f) == LET RECURSIVE C(_) C(i) == IF i = N THEN 0 ELSE (f[i] + ETA) + (2 * ETA + 1) * C(i + 1) IN C(0)
VCode(v) == LET RECURSIVE C(_) C(c) == IF c = LL THEN 0 ELSE Code(v[c]) + ((2 * ETA + 1) ^ N) * C(c + 1) IN C(0)

VARIABLES a, s1, s2, phase, res
vars == << a, s1, s2, phase, res >>
Init == /\ a \in AS /\ s1 \in { v \in [Cols -> Small] : VCode(v) % KeyStride = 0 } /\ s2 \in S2S
        /\ phase = "key" /\ res = [acc |-> FALSE, ok |-> TRUE, why |-> "none", wt |-> 0]

Prod(f, g) == Schoolbook(ModQPoly(f), ModQPoly(g))
V(F(_)) == TLCEval([r \in Rows |-> F(r)])             \* a vector of k polynomials
VL(F(_)) == TLCEval([c \in Cols |-> F(c)])            \* a vector of l polynomials
Zero == [i \in Idx |-> 0]
A(r, c) == IF Mutant = "transpose" /\ r \in Cols /\ c \in Rows THEN a[c][r] ELSE a[r][c]
\* row r of the matrix-vector product: the sum over the l columns
MvRow(r, v) == LET RECURSIVE S(_) S(c) == IF c = (IF Mutant = "shortsum" THEN LL - 1 ELSE LL) THEN Zero
                                           ELSE PolyAdd(Prod(A(r, c), v[c]), S(c + 1)) IN S(0)
\* the signer's matrix is always the true one (the mutants model a slip on ONE side, the verifier's)
MvRowTrue(r, v) == LET RECURSIVE S(_) S(c) == IF c = LL THEN Zero ELSE PolyAdd(Prod(a[r][c], v[c]), S(c + 1)) IN S(0)
ZNorm(z) == IF Mutant = "norm0" THEN PolyNorm(z[0]) ELSE VecNorm(z, LL)

Attempt(y, c) ==
  LET t   == V(LAMBDA r : PolyAdd(MvRowTrue(r, s1), ModQPoly(s2[r])))
      t1  == V(LAMBDA r : [i \in Idx |-> Power2Round(t[r][i])[1]])
      t0  == V(LAMBDA r : [i \in Idx |-> Power2Round(t[r][i])[2]])
      w   == V(LAMBDA r : MvRowTrue(r, y))
      w1  == V(LAMBDA r : HighBitsPoly(w[r]))
      cs1 == VL(LAMBDA j : IF Mutant = "cs1first" /\ j > 0 THEN Zero ELSE Prod(c, s1[j]))
      cs2 == V(LAMBDA r : Prod(c, s2[r]))
      ct0 == V(LAMBDA r : Prod(c, t0[r]))
      z   == VL(LAMBDA j : PolyAdd(ModQPoly(y[j]), cs1[j]))
      wcs2 == V(LAMBDA r : PolySub(w[r], cs2[r]))
      r0  == V(LAMBDA r : LowBitsPoly(wcs2[r]))
      h   == V(LAMBDA r : MakeHintPoly(PolyNeg(ct0[r]), PolyAdd(wcs2[r], ct0[r])))
      rej1 == ZNorm(z) >= GAMMA1 - BETA \/ VecNorm(r0, KK) >= GAMMA2 - BETA
      rej2 == VecNorm(ct0, KK) >= GAMMA2 \/ VecWeight(h, KK) > OMEGA
      \* the verifier's side (Algorithm 8 lines 9-10)
      zc  == VL(LAMBDA j : CenterPoly(z[j]))
      w1p == V(LAMBDA r : UseHintPoly(h[r], PolySub(MvRow(r, zc), Prod(c, ScalePoly(t1[r], 2^D)))))
      vok == VecNorm(z, LL) < GAMMA1 - BETA /\ w1p = w1
  IN [acc |-> ~rej1 /\ ~rej2, ok |-> (rej1 \/ rej2) \/ vok,
      why |-> IF rej1 THEN "norm" ELSE IF rej2 THEN "hint" ELSE "none", wt |-> VecWeight(h, KK)]

Sign == /\ phase = "key"
        /\ \E y \in [Cols -> Masks], c \in Ball : res' = Attempt(y, c)
        /\ phase' = "done"
        /\ UNCHANGED << a, s1, s2 >>
CAcceptWithHint == phase = "done" /\ res.acc /\ res.wt > 0      /\ phase' = "classified" /\ UNCHANGED << a, s1, s2, res >>
CAcceptNoHint   == phase = "done" /\ res.acc /\ res.wt = 0      /\ phase' = "classified" /\ UNCHANGED << a, s1, s2, res >>
CRejectNorm     == phase = "done" /\ res.why = "norm"           /\ phase' = "classified" /\ UNCHANGED << a, s1, s2, res >>
CRejectHint     == phase = "done" /\ res.why = "hint"           /\ phase' = "classified" /\ UNCHANGED << a, s1, s2, res >>
Next == Sign \/ CAcceptWithHint \/ CAcceptNoHint \/ CRejectNorm \/ CRejectHint
Spec == Init /\ [][Next]_vars

Complete == res.ok                                    \* the property (C01 at toy size, vector-shaped)
CanTerminate == phase = "key" => \E y \in [Cols -> Masks], c \in Ball : Attempt(y, c).acc
=======================================================================
