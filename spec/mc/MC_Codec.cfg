CONSTANTS Q = 17 N = 8 ZETA = 3 D = 2 KK = 2 LL = 1 ETA = 2 TAU = 1 GAMMA1 = 4 GAMMA2 = 4 OMEGA = 3 LAMBDAB = 8
SPECIFICATION Spec
INVARIANT Canonical
CHECK_DEADLOCK FALSE
