---------------------------- MODULE ImplBounds ----------------------------
(* Layer I: an abstract-interpretation state machine over the implementation's lazy     *)
(* 32-bit arithmetic (transfer functions in ImplBoundFns.tla).  The state is a pipeline  *)
(* stage of one call site and a SOUND upper bound on max |coefficient| at that stage;    *)
(* each action is the transfer function of the code at that stage.  Invariants: every    *)
(* i32 intermediate stays below 2^31 and the documented precondition of every kernel     *)
(* holds -- for ALL inputs in the call site's range, including adversarial ones (the      *)
(* response vector of a signature under verification).                                    *)
EXTENDS ImplBoundFns
CONSTANTS GAMMA1, ETA, TAU

\* ---- call sites: the magnitude of the argument of inv_ntt and of the forward transforms
Sites == { "verify.w_approx", "sign.w", "sign.cs1", "sign.cs2", "sign.ct0", "keygen.t", "serialise", "derive.t" }
NttInput(site) ==                                \* max |coefficient| entering the forward transform
  CASE site = "verify.w_approx" -> GAMMA1        \* z as decoded from the signature: [-gamma1+1, gamma1]
    [] site = "sign.w"          -> GAMMA1        \* y
    [] site = "keygen.t"        -> ETA           \* s1
    [] site = "derive.t"        -> 0             \* s1_hat comes from the key struct, not from ntt
    [] OTHER                    -> 1             \* c
InvArg(site) ==                                  \* max |coefficient| of the argument of inv_ntt
  CASE site = "verify.w_approx" -> SatAdd(MvmOut, Mont(CHat, ToMontOut))
    [] site = "sign.w"          -> MvmOut
    [] site = "keygen.t"        -> MvmOut
    [] site = "derive.t"        -> MvmOut
    [] site = "serialise"       -> Mont(ToMontOut, 1)          \* mont_reduce of a stored Montgomery-form value
    [] OTHER                    -> Mont(CHat, ToMontOut)       \* c_hat * s_hat_mont, one product

VARIABLES site, stage, layer, b, ok, note
vars == << site, stage, layer, b, ok, note >>
Init == /\ site \in Sites /\ stage = "ntt" /\ layer = 0 /\ b = NttInput(site) /\ ok = TRUE /\ note = "input"
NttLayer == /\ stage = "ntt" /\ layer < 8
            /\ b' = SatAdd(b, Mont(Q, b)) /\ layer' = layer + 1
            /\ ok' = (ok /\ b' < MAXI) /\ note' = "ntt layer" /\ UNCHANGED << site, stage >>
\* to_mont of the transformed vector: its precondition, then on to the argument of inv_ntt
ToMont == /\ stage = "ntt" /\ layer = 8
          /\ ok' = (ok /\ b < PRE64X) /\ note' = "to_mont precondition |x| < 67058539"
          /\ stage' = "inv_arg" /\ b' = InvArg(site) /\ layer' = 0 /\ UNCHANGED site
CopyIn == /\ stage = "inv_arg"
          /\ ok' = (ok /\ (COPYIN_REDUCES => b < PRE32)) /\ note' = "inv_ntt copy-in"
          /\ b' = InvCopy(b) /\ stage' = "inv" /\ UNCHANGED << site, layer >>
InvL == /\ stage = "inv" /\ layer < 8
        /\ LET s == SatAdd(b, b) IN            \* t + w[j+len] and t - w[j+len]: both bounded by the doubled magnitude
           /\ b' = Max2(s, Mont(Q, s)) /\ ok' = (ok /\ s < MAXI)
           /\ note' = IF s < MAXI THEN "inv layer fits" ELSE "inv layer: add/sub may overflow i32"
        /\ layer' = layer + 1 /\ UNCHANGED << site, stage >>
Final == /\ stage = "inv" /\ layer = 8
         /\ stage' = "done" /\ b' = Q - 1 /\ ok' = (ok /\ Mont(Q, b) < PRE32) /\ note' = "scaled by f and fully reduced"
         /\ UNCHANGED << site, layer >>
Next == NttLayer \/ ToMont \/ CopyIn \/ InvL \/ Final
Spec == Init /\ [][Next]_vars
NoOverflow == ok
=======================================================================
