"""C04 Key generation is exactly the FIPS 204 function of the 32-byte seed."""
import json
import os

import vlib
from checks import common

ACVP = os.path.join(vlib.REPO, "tests/nist_vectors/ML-DSA-keyGen-FIPS204/internalProjection.json")


def acvp_seeds(setno, n, off):
    try:
        v = json.load(open(ACVP))
    except Exception:
        return []
    for g in v["testGroups"]:
        if g["parameterSet"] == "ML-DSA-%d" % setno:
            t = g["tests"]
            return [t[(off + i) % len(t)]["seed"].lower() for i in range(min(n, len(t)))]
    return []


def run(tier, seed):
    chk = vlib.Check("C04", "model_checking", tier, seed)
    bindir = vlib.build_harness("checked")
    nfull, nlite, nacvp = (2, 24, 1) if tier == "quick" else (24, 400, 6)
    traces = {}
    for s in (44, 65, 87):
        seeds = ",".join(acvp_seeds(s, nacvp, seed))
        vlib.drive(bindir, "keygen", sets=s, seed=seed, nfull=nfull, nlite=nlite, seeds=seeds, out=chk.workdir)
        traces[s] = os.path.join(chk.workdir, "keygen_%d.ndjson" % s)
    n, mism = common.validate_f(chk, traces, nproc=12, key_of=lambda m: "keygen:" + m["ev"])
    # rare keys (t leaves [0,q) before the final reduction) found by search, and the key-generation samplers at scale
    sw = os.path.join(chk.workdir, "sw")
    from concurrent.futures import ThreadPoolExecutor
    rel = vlib.build_harness("release")
    nedge, nsamp = (60000, 60000) if tier == "quick" else (1500000, 1500000)
    with ThreadPoolExecutor(max_workers=3) as ex:
        list(ex.map(lambda s: vlib.drive(rel, "sweeps", sets=s, seed=seed, nkeys=0, nedge=nedge, nedgefull=1 if tier == "quick" else 4,
                                         nsamplers=nsamp, nrare=1 if tier == "quick" else 4, out=sw, timeout=7200), (44, 65, 87)))
    n2, _ = common.validate_f(chk, {s: os.path.join(sw, "sweeps_%d.ndjson" % s) for s in (44, 65, 87)}, nproc=9, chunks_per_set=3,
                              key_of=lambda m: "keygen-rare:" + m["event"].get("fn", m["ev"]))
    n += n2
    chk.leg("rare-event search (own arithmetic selects, specification judges)", edge_seeds_searched_per_set=nedge, sampler_cases_per_set=nsamp * 12)
    chk.leg("trace validation (Layer F judge)", events=n, full_recomputations_per_set=nfull + nacvp,
            partial_recomputations_per_set=nlite + 2, entry_points=["keygen_from_seed", "try_keygen_with_rng"])
    chk.cov["exhaustive"] = False
    chk.assumptions += ["SHAKE128/256 are computed by the sha3 crate through the hash helper (self-tested against FIPS 202 digests at setup)",
                        "the TLA+ transcription of Algorithm 6 is faithful to FIPS 204 (anchored by the ACVP keyGen vectors in thorough runs and at setup)"]
    return chk.finish()


def replay(path, seed):
    return vlib.replay_f("C04", path)
