"""C10 Malformed private keys are rejected at deserialisation."""
import json
import os

import vlib
from checks import common


def run(tier, seed):
    chk = vlib.Check("C10", "model_checking", tier, seed)
    # both build profiles: with the library's self-checks on (an accepted malformed key trips them) and the release profile
    # (where only the deserialiser's own test stands between a malformed string and a key object)
    jobs = []
    for profile in ("checked", "release"):
        bindir = vlib.build_harness(profile)
        # thorough: the exhaustive field sweep is repeated on four different base keys
        for rnd, sd in enumerate([seed] if tier == "quick" else [seed, seed + 101, seed + 202, seed + 303]):
            out = os.path.join(chk.workdir, "%s%d" % (profile, rnd))
            vlib.drive(bindir, "skfields", seed=sd, thorough=1 if tier == "thorough" else 0, out=out, timeout=3600)
            jobs += [(s, os.path.join(out, "skfields_%d.ndjson" % s)) for s in (44, 65, 87)]
    mism, _ = common.validate_judged(chk, os.path.join(common.TRACE_DIR, "TraceCodec.tla"), jobs, nproc=12, chunk=24)
    cases = 0
    for s, p in jobs:
        for ln in open(p):
            e = json.loads(ln)
            if e["ev"] == "Sweep":
                cases += e["cases"]
    chk.cov["field_value_cases"] = cases
    sweep_fail = [m for m in mism if m["event"]["ev"] == "Sweep"]
    concrete = [m for m in mism if m["event"]["ev"] != "Sweep"]
    for m in concrete:
        e = m["event"]
        chk.violation("sk:" + e["ev"], "set %s: private-key deserialisation %s a key the specification %s: %s" % (
            m["set"], "accepted" if e.get("ok") else "rejected", "rejects" if e.get("ok") else "accepts", e.get("what", "")), dict(set=m["set"], event=e))
    if sweep_fail and not concrete:
        raise vlib.ToolError("the native field sweep counted failures but TLC confirmed none of the recorded keys (harness layout defect?): %s" % sweep_fail[0]["event"])
    chk.leg("exhaustive field sweep + TLC-judged keys", cases=cases, tlc_confirmed_mismatches=len(concrete),
            what="every s1/s2 field x every field value patched into a valid key; multi-field patches; extremal keys; accepted keys must re-serialise identically without panicking")
    common.mc_variants(chk, "MC_Keys", (44, 65, 87), tier=tier, workers=2)
    chk.cov["exhaustive"] = True
    chk.cov["exhaustive_note"] = "every (vector, polynomial, coefficient, field value) for both eta; the base key and the other fields are sampled"
    return chk.finish()


def replay(path, seed):
    return run("quick", seed)
