"""C01 Honest signatures always verify (all modes, sets, key provenances)."""
import vlib
from checks import common


def run(tier, seed):
    chk = vlib.Check("C01", "model_checking", tier, seed)
    bindir = vlib.build_harness("release")
    ns, nm = (3, 8) if tier == "quick" else (24, 28)
    tr = common.api_traces(chk, bindir, "honest", nseeds=ns, nmsgs=nm)
    n = common.validate_api(chk, tr, key_of=lambda e: "honest:" + e.get("ev", ""))
    # rare signatures (many attempts, hint weight 0 / omega, empty hint polynomials, norm one below the bound) found among
    # thousands of honest signatures with the attempt hook, then put through the recorded API under every pk provenance
    hunt = common.api_traces(chk, bindir, "hunt", outdir=chk.workdir + "/hunt", n=12000 if tier == "quick" else 400000)
    n += common.validate_api(chk, {"hunt-%d" % s: p for s, p in hunt.items()}, key_of=lambda e: "honest-rare:" + e.get("ev", ""))
    n += common.behaviours_leg(chk, bindir, 90 if tier == "quick" else 2500)
    chk.leg("trace validation (Layer A judge)", events=n,
            grid="seeds x messages {0,1,135,136,137,4096,random} x |ctx| {0,1,32,255} x 4 modes x sk {generated, round-tripped, cloned} x pk {generated, round-tripped, derived, derived-from-round-tripped}")
    # rare keys (t leaves [0,q) before the final reduction): the public key derived from the private key must equal
    # the generated one on every such seed found by search (judged by Layer F)
    import os
    from concurrent.futures import ThreadPoolExecutor
    sw = os.path.join(chk.workdir, "sw")
    with ThreadPoolExecutor(max_workers=3) as ex:
        list(ex.map(lambda s: vlib.drive(bindir, "sweeps", sets=s, seed=seed + 2, nkeys=1000, nedge=60000 if tier == "quick" else 1500000, nedgefull=1, nsamplers=0, out=sw, timeout=7200), (44, 65, 87)))
    common.validate_f(chk, {s: os.path.join(sw, "sweeps_%d.ndjson" % s) for s in (44, 65, 87)}, nproc=6, chunks_per_set=2, key_of=lambda m: "rare-key:" + m["ev"])
    common.nohooks_leg(chk, "honest", nseeds=2, nmsgs=4)
    common.native_leg(chk, "honest", nseeds=2, nmsgs=6)
    n += common.crossset_leg(chk, bindir, rounds=3 if tier == "quick" else 24)
    common.mc_leg(chk, "MC_API", tier=tier, workers=12)
    common.mc_leg(chk, "MC_ToySign", tier=tier)
    if tier == "thorough":
        # the same theorem with k = 2 (vector-shaped t, w, hints, norms) + CanTerminate for every key
        common.mc_leg(chk, "MC_ToySign", cfg=os.path.join(common.MC_DIR, "MC_ToySign_k2.cfg"), workers=14)
        # the rejection loop can terminate for EVERY toy key (some (y, c) is accepted): all 972 keys at k = 1, every third at k = 2
        with ThreadPoolExecutor(max_workers=2) as ex:
            list(ex.map(lambda c: common.mc_leg(chk, "MC_ToySign", cfg=os.path.join(common.MC_DIR, c), workers=1, coverage=False),
                        ("MC_ToySign_allkeys.cfg", "MC_ToySign_allkeys_k2.cfg")))
    # the same theorem with a k x l matrix, l = 2 (vector-shaped s1, y, z; row sums over l columns; vector norm of z), and the
    # vector-shape slips it exists to exclude, each of which MUST produce a counterexample (transposed matrix, sum over l-1
    # columns, norm of z[0] only, challenge applied to s1[0] only)
    common.mc_leg(chk, "MC_ToySignKL", cfg=os.path.join(common.MC_DIR, "MC_ToySignKL_quick.cfg" if tier == "quick" else "MC_ToySignKL.cfg"), workers=14)
    with ThreadPoolExecutor(max_workers=4) as ex:
        list(ex.map(lambda m: common.mc_leg(chk, "MC_ToySignKL", cfg=os.path.join(common.MC_DIR, "MC_ToySignKL_mut_%s.cfg" % m), workers=2,
                                            coverage=False, expect_violation=True),
                    ("transpose", "norm0") if tier == "quick" else ("transpose", "shortsum", "norm0", "cs1first")))
    # the whole specification (hashing, samplers, codecs, rejection loop) on ring degree 8: staged = literal forms, Verify(Sign) = TRUE
    common.mc_leg(chk, "MC_SmallN", tier=tier, coverage=False, must_print=["REJECT1 taken", "REJECT2 taken"])
    chk.cov["exhaustive"] = False
    chk.assumptions += ["ideal-functionality judge: a false alarm would need a SHAKE256 collision", "real-size completeness is sampled; the for-all part is the toy exhaustive model check plus the whole-domain scalar lemmas of C15"]
    return chk.finish()


def replay(path, seed):
    return common.replay_api("C01", path)
