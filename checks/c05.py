"""C05 Any single-bit change invalidates a signature (strong binding)."""
import vlib
from checks import common


def run(tier, seed):
    chk = vlib.Check("C05", "model_checking", tier, seed)
    bindir = vlib.build_harness("release")
    nt = 1 if tier == "quick" else 6
    tr = common.api_traces(chk, bindir, "flips", ntuples=nt)
    n = common.validate_api(chk, tr, key_of=lambda e: "flip:" + str(e.get("field", e.get("ev"))))
    import json
    bits = 0
    for p in tr.values():
        for ln in open(p):
            e = json.loads(ln)
            if e.get("ev") == "FlipSweep":
                bits += e["nbits"]
    chk.cov["bit_positions_flipped"] = bits
    chk.leg("trace validation (Layer A judge)", events=n, flipped_tuples_verified=bits,
            fields=["sig (every bit incl. the hint section and the last two bytes)", "serialised pk (re-deserialised)", "message", "context"])
    common.nohooks_leg(chk, "flips", ntuples=1, fields="sig")
    common.mc_variants(chk, "MC_Hint", (44, 65), tier=tier, workers=12)
    chk.cov["exhaustive"] = True
    chk.cov["exhaustive_note"] = "every single-bit position of every field of the sampled valid tuples; the tuples themselves are sampled"
    chk.assumptions += ["an accepted flip would be reported even if it were a genuine SHAKE256 collision"]
    return chk.finish()


def replay(path, seed):
    return common.replay_api("C05", path)
