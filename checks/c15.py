"""C15 Coefficient arithmetic is exact on its whole domain."""
import json
import os
import re

import vlib
from checks import common


def run(tier, seed):
    chk = vlib.Check("C15", "model_checking", tier, seed)
    bindir = vlib.build_harness("release")
    stride = 16 if tier == "quick" else 1
    tables = []
    # 1. TLC certifies the piecewise descriptions against the definitions and emits them
    jobs = []
    for s in (44, 65):
        out = os.path.join(chk.workdir, "tables_%d.json" % s)
        cfg = os.path.join(chk.workdir, "MC_Scalar_%d.cfg" % s)
        vlib.write_cfg(cfg, vlib.cfg_constants(s), 'CONSTANTS NCH = 2048 STRIDE = %d OUT = "%s"\nSPECIFICATION Spec\nINVARIANT Certified\nCHECK_DEADLOCK FALSE' % (stride, out))
        jobs.append(dict(module=os.path.join(common.MC_DIR, "MC_Scalar.tla"), cfg=cfg, workdir=os.path.join(chk.workdir, "mcs%d" % s), workers=6, timeout=3000, xmx="6g"))
        tables.append(out)
    for r, t in zip(vlib.tlc_many(jobs, maxproc=2), tables):
        if r["rc"] != 0 or "No error has been found" not in r["out"] or not os.path.exists(t):
            raise vlib.ToolError("certification of the scalar tables failed (specification defect):\n" + r["out"][-3000:])
        chk.add_tlc(r)
    chk.leg("TLC: piecewise tables certified against the definitions", exhaustive=(stride == 1),
            domain="all 2^24 three-byte values and all of Z_q per function" if stride == 1 else "every piece boundary +-2 and 1/16 of the domain (thorough: whole domain)")
    # 2. native exhaustive sweeps of the implementation against the tables / contracts
    vlib.drive(bindir, "scalar", timeout=7200, seed=seed, tables=",".join(tables), thorough=1 if tier == "thorough" else 0, out=chk.workdir)
    summ = json.load(open(os.path.join(chk.workdir, "scalar_summary.json")))
    evals = sum(v["evaluations"] for v in summ.values())
    chk.cov["native_evaluations"] = evals
    chk.cov["native_sweeps"] = {k: v["evaluations"] for k, v in summ.items()}
    # 3. TLC re-judges the sampled evaluations and every disagreement from the definitions
    trace = os.path.join(chk.workdir, "scalar.ndjson")
    evs = [json.loads(x) for x in open(trace) if x.strip()]
    confirmed = set()
    for s in (44, 65):
        cfg = os.path.join(chk.workdir, "TraceScalar_%d.cfg" % s)
        vlib.write_cfg(cfg, vlib.cfg_constants(s), "SPECIFICATION Spec\nVIEW View\nCHECK_DEADLOCK FALSE")
        r = vlib.tlc(os.path.join(common.TRACE_DIR, "TraceScalar.tla"), cfg, os.path.join(chk.workdir, "ts%d" % s), env={"TRACE": trace}, workers=1, timeout=1800)
        d = vlib.parse_done(r["out"])
        if r["rc"] != 0 or d is None or d["n"] != len(evs):
            raise vlib.ToolError("TraceScalar did not finish:\n" + r["out"][-3000:])
        chk.add_tlc(r, traces=1)
        confirmed.update(d["lists"].get("mismatches", []))
    chk.add("events_judged_by_spec", len(evs))
    for i in sorted(confirmed):
        e = evs[i - 1]
        name = e.get("fn", e["ev"])
        chk.violation("scalar:" + name, "%s returns a value the standard does not define for this input: %s" % (name, json.dumps(e)[:300]), dict(event=e))
    unconfirmed = [i + 1 for i, e in enumerate(evs) if e.get("disagrees_with_table") and (i + 1) not in confirmed]
    if unconfirmed:
        raise vlib.ToolError("the harness reports disagreements with the tables that TLC does not confirm from the definitions (table or harness defect): %s" % [evs[i - 1] for i in unconfirmed[:3]])
    if not confirmed and any(v["disagreements"] for v in summ.values()):
        raise vlib.ToolError("disagreements counted but none recorded")
    chk.sample(dict(sweeps={k: v["evaluations"] for k, v in list(summ.items())[:4]}))
    chk.sample(dict(event=evs[len(evs) // 2]))
    # 3b. "no rare coefficient value can make key generation ... deviate from the standard": keys whose t leaves [0, q) before
    #     the final reduction (or sits on a rounding boundary at the first/last coefficient), found by search, recomputed by TLC
    from concurrent.futures import ThreadPoolExecutor
    sw = os.path.join(chk.workdir, "sw")
    with ThreadPoolExecutor(max_workers=3) as ex:
        list(ex.map(lambda s: vlib.drive(bindir, "sweeps", sets=s, seed=seed + 4, nkeys=0, nedge=40000 if tier == "quick" else 800000, nedgefull=1, nsamplers=0, out=sw, timeout=7200), (44, 65, 87)))
    common.validate_f(chk, {s: os.path.join(sw, "sweeps_%d.ndjson" % s) for s in (44, 65, 87)}, nproc=9, chunks_per_set=3, key_of=lambda m: "rare-coefficient-key:" + m["ev"])
    # 4. the implementation's bit-trick kernels as TLA+ transcriptions: equal to the definitions (TLC), 64-bit contracts (Apalache)
    common.mc_variants(chk, "MC_Kernels", (44, 65), tier=tier, workers=12)
    if tier == "thorough":
        common.apalache_leg(chk, "AP_Kernels")
    chk.cov["exhaustive"] = True
    chk.cov["exhaustive_note"] = ("native sweeps are exhaustive over Z_q / 2^24 / the documented 32-bit range (stride 3 in quick) / all 2^32 low words per high word / all |x| < 67058539; "
                                  "TLC certification of the tables is exhaustive in thorough, boundary+stride in quick")
    chk.assumptions += ["the table transport: TLC proves table = definition, the harness proves code = table on every element"]
    return chk.finish()


def replay(path, seed):
    return run("quick", seed)
