"""C07 The 255-byte context limit is enforced without aliasing."""
import vlib
from checks import common


def run(tier, seed):
    chk = vlib.Check("C07", "model_checking", tier, seed)
    bindir = vlib.build_harness("release")
    if tier == "quick":
        kw = dict(maxlen=1024, extra="4096,65535,65536,65537,65791")
    else:
        kw = dict(maxlen=4100, extra="8192,65535,65536,65537,65791,70000,131072,131327,1048576")
    tr = common.api_traces(chk, bindir, "ctxlimit", **kw)
    n = common.validate_api(chk, tr, key_of=lambda e: "ctxlimit:%s" % e.get("ev", ""))
    chk.leg("trace validation (Layer A judge)", events=n, context_lengths="every length 0..%s plus 2^16-aligned ones" % kw["maxlen"],
            forged="for each over-long context: a signature over the wrapped length byte, and one for the context truncated mod 256")
    common.nohooks_leg(chk, "ctxlimit", maxlen=300, extra="512,65536")
    common.mc_leg(chk, "MC_Format", tier=tier, workers=12)
    common.mc_leg(chk, "MC_Format", cfg=common.MC_DIR + "/MC_Format_noguard.cfg", expect_violation=True, workers=4)
    common.mc_leg(chk, "MC_API")
    chk.cov["exhaustive"] = True
    chk.cov["exhaustive_note"] = "all context lengths in the stated range, per set and mode class; message and key are sampled"
    return chk.finish()


def replay(path, seed):
    return common.replay_api("C07", path)
