"""C13 No input can make the library panic."""
import json
import os

import vlib
from checks import common


def run(tier, seed):
    chk = vlib.Check("C13", "exploration", tier, seed)
    # the library's debug assertions and integer-overflow checks are on in this build
    bindir = vlib.build_harness("checked")
    scale = 1 if tier == "quick" else 12
    vlib.drive(bindir, "hostile", seed=seed, scale=scale, out=chk.workdir, timeout=3600)
    vlib.drive(bindir, "ring", seed=seed, thorough=1 if tier == "thorough" else 0, out=chk.workdir, timeout=3600)
    vlib.drive(bindir, "skfields", seed=seed, thorough=1 if tier == "thorough" else 0, out=os.path.join(chk.workdir, "sk"), timeout=3600)
    calls, classes = 0, set()
    # 1. per-class call tallies against the API model (no action panics)
    jobs = [(s, os.path.join(chk.workdir, "hostile_%d.ndjson" % s)) for s in (44, 65, 87)]
    mism, _ = common.validate_judged(chk, os.path.join(common.TRACE_DIR, "TraceCalls.tla"), jobs, nproc=3)
    for s, p in jobs:
        for ln in open(p):
            e = json.loads(ln)
            calls += e["count"]
            classes.add((e["op"], e["class"]))
    for m in mism:
        e = m["event"]
        first = e["panics"][0] if e["panics"] else {}
        loc = first.get("loc", "?")
        key = "panic:%s:%s:%s" % (e["op"], loc.split("/")[-1].split(":")[0], first.get("msg", "")[:40])
        chk.violation(key, "set %s: %s panicked on %s at %s: %s" % (m["set"], e["op"], e["class"], loc, first.get("msg", "")[:160]),
                      dict(set=m["set"], op=e["op"], input_class=e["class"], panic=first))
    # 2. the arithmetic pipeline under tracing: panics (overflow checks) and magnitudes against the bounds model
    jobs = [(s, os.path.join(chk.workdir, "ring_%d.ndjson" % s)) for s in (44, 65, 87)]
    mism2, mags = common.validate_judged(chk, os.path.join(common.TRACE_DIR, "TraceRing.tla"), jobs, nproc=6, chunk=24)
    for m in mism2:
        e = m["event"]
        if e["ev"] == "Panic":
            chk.violation("panic:%s" % e.get("loc", "?").split("/")[-1], "set %s: %s" % (m["set"], e.get("what", ""))[:400], dict(set=m["set"], event=e))
    chk.cov["envelope"] = "inside the envelope proved by MC_Bounds" if not mags else "unproven: " + mags[0]["info"][:200]
    # 3. accepted private keys of every field class: deserialise / re-serialise without panicking (Sweep + SkAccept events)
    jobs = [(s, os.path.join(chk.workdir, "sk", "skfields_%d.ndjson" % s)) for s in (44, 65, 87)]
    mism3, _ = common.validate_judged(chk, os.path.join(common.TRACE_DIR, "TraceCodec.tla"), jobs, nproc=12, chunk=24)
    for m in mism3:
        e = m["event"]
        if "PANIC" in e.get("what", "") or e["ev"] == "Panic":
            chk.violation("panic:sk", "set %s: %s" % (m["set"], e.get("what", ""))[:400], dict(set=m["set"], event=e))
    # 4. rare keys (t leaves [0,q) before the final reduction), found by search: keygen / derive / round trips on
    #    exactly those seeds in this checked build (a range self-check that only such keys reach would fire here)
    from concurrent.futures import ThreadPoolExecutor
    sw = os.path.join(chk.workdir, "sw")
    with ThreadPoolExecutor(max_workers=3) as ex:
        list(ex.map(lambda s: vlib.drive(bindir, "sweeps", sets=s, seed=seed + 3, nkeys=500, nedge=60000 if tier == "quick" else 1000000, nedgefull=1, nsamplers=0, out=sw, timeout=7200), (44, 65, 87)))
    common.validate_f(chk, {s: os.path.join(sw, "sweeps_%d.ndjson" % s) for s in (44, 65, 87)}, nproc=6, chunks_per_set=2,
                      key_of=lambda m: "panic:rare-key:" + m["event"].get("loc", m["ev"]).split("/")[-1])
    common.mc_variants(chk, "MC_Bounds", (44, 65, 87), tier=tier, workers=2)
    chk.cov["evaluations"] = calls
    chk.cov["distinct_nontrivial"] = len(classes) * 3
    chk.cov["rule"] = ("public calls under catch_unwind in a build with debug assertions and overflow checks; input classes: arbitrary pk/sig/message/context bytes (incl. 1 MiB), "
                       "every hint malformation, adversarial response vectors (sparse-coset, all-extremal), every class of ACCEPTED private key (extremal fields, inconsistent t0/tr/K, random in-range) "
                       "followed by serialise/derive/sign/verify, seeded keygen, the CTEST entry point; distinct = (operation, input class) x 3 sets; "
                       "plus the exhaustive sk field sweep of C10 and the per-stage magnitude conformance of C18")
    chk.leg("MC_Bounds: no i32 overflow in the transform pipeline for ALL inputs of every call site (abstract interpretation, model-checked)", sets=[44, 65, 87])
    chk.cov["exhaustive"] = False
    return chk.finish()


def replay(path, seed):
    return run("quick", seed)
