"""C02 Verification accepts exactly what FIPS 204 Verify accepts."""
import os

import vlib
from checks import common


def keyf(m):
    fam = m["event"].get("family", "")
    if fam.startswith("5 "):
        return "verify:lazy-reduction-overflow"
    return "verify:" + fam.split(",")[0][:40]


def run(tier, seed):
    chk = vlib.Check("C02", "model_checking", tier, seed)
    nacc, nrand = (2, 6) if tier == "quick" else (4, 400)
    traces = {}
    # checked build: internal self-checks and overflow checks on (a panic is recorded as the result)
    bindir = vlib.build_harness("checked")
    n, mism = 0, []
    # thorough: the whole family set is regenerated from four different seeds (other keys, messages, placements, pools)
    for rnd, sd in enumerate([seed] if tier == "quick" else [seed, seed + 101, seed + 202, seed + 303]):
        out = os.path.join(chk.workdir, "v%d" % rnd)
        for s in (44, 65, 87):
            vlib.drive(bindir, "verify", sets=s, seed=sd, nacc=nacc, nrand=nrand, stress=1, out=out)
            traces[s] = os.path.join(out, "verify_%d.ndjson" % s)
        n1, m1 = common.validate_f(chk, traces, nproc=12, key_of=keyf)
        n += n1
        mism += m1
    # the release build wraps silently where the checked build panics: judge the stress family there too
    rel = vlib.build_harness("release")
    rdir = os.path.join(chk.workdir, "rel")
    vlib.drive(rel, "verify", sets=87, seed=seed, nacc=1, nrand=0, stress=1, out=rdir)
    n2, mism2 = common.validate_f(chk, {87: os.path.join(rdir, "verify_87.ndjson")}, nproc=8, key_of=keyf)
    # a build for the host CPU (-C target-cpu=native): code under cfg(target_feature = ...) exists only there
    nat = vlib.build_harness("release", native=True)
    ndir = os.path.join(chk.workdir, "native")
    nset = (44, 65, 87)[seed % 3]
    vlib.drive(nat, "verify", sets=nset, seed=seed + 7, nacc=1, nrand=2, stress=0, out=ndir)
    n3, _ = common.validate_f(chk, {nset: os.path.join(ndir, "verify_%d.ndjson" % nset)}, nproc=8, key_of=keyf)
    n2 += n3
    # malformed / perturbed signatures through the public API only, on the library built with and without the hooks
    mal = common.api_traces(chk, rel, "malformed", nbase=4 if tier == "quick" else 40)
    common.validate_api(chk, {"malformed-%d" % s: p for s, p in mal.items()}, key_of=lambda e: "verify:malformed")
    common.nohooks_leg(chk, "malformed", nbase=4 if tier == "quick" else 40)
    common.acvp_anchor(chk, 0, 0, 3 if tier == "quick" else 15, seed)
    acc = sum(1 for s in traces for ln in open(traces[s]) if '"res":true' in ln)
    chk.cov["accepting_cases"] = acc
    chk.leg("trace validation (Layer F judge)", events=n + n2, accepting=acc,
            families=["1 honest", "2 t1=0 forgeries at the norm boundary", "3 hint malformation classes", "4 c~/mode/ctx", "random bytes", "5 aligned NTT residues"])
    if acc < 6:
        raise vlib.ToolError("too few accepting cases (%d): the forged-signature construction is not exercising the accept side" % acc)
    chk.cov["exhaustive"] = False
    chk.assumptions += ["SHAKE/SHA-2 computed by the sha2/sha3 crates through the hash helper",
                        "forged signatures are built by the harness's own arithmetic; their verdicts come from the TLA+ specification only"]
    return chk.finish()


def replay(path, seed):
    return vlib.replay_f("C02", path)
