"""C18 NTT-based polynomial products equal the negacyclic product mod q."""
import json
import os

import vlib
from checks import common


def brief_ring(e):
    return {k: (v if not isinstance(v, list) else "[%d values]" % len(v)) for k, v in e.items()}


def run(tier, seed):
    chk = vlib.Check("C18", "model_checking", tier, seed)
    # checked build: i32 overflow anywhere in the pipeline is a panic, recorded as a Panic event
    bindir = vlib.build_harness("checked")
    jobs = []
    # thorough: three independent draws of every random family (the deterministic families repeat, which is harmless)
    for rnd, sd in enumerate([seed] if tier == "quick" else [seed, seed + 101, seed + 202]):
        out = os.path.join(chk.workdir, "r%d" % rnd)
        vlib.drive(bindir, "ring", seed=sd, thorough=1 if tier == "thorough" else 0, out=out, timeout=3600)
        jobs += ([(44, os.path.join(out, "ring_generic.ndjson"))] if rnd == 0 or tier == "thorough" else []) + [(s, os.path.join(out, "ring_%d.ndjson" % s)) for s in (44, 65, 87)]
    mism, mags = common.validate_judged(chk, os.path.join(common.TRACE_DIR, "TraceRing.tla"), jobs, nproc=12, chunk=48)
    for m in mism:
        e = m["event"]
        key = "ring:panic" if e["ev"] == "Panic" else "ring:" + e["ev"]
        chk.violation(key, "set %s: %s: %s" % (m["set"], e["ev"], json.dumps(brief_ring(e))[:400]), dict(set=m["set"], event=e))
    chk.cov["magnitude_events_outside_model"] = len(mags)
    if mags:
        # the code's reduction placement no longer matches the bounds model: not a violation by itself
        # (DESIGN section 7); the adversarial vectors in this same trace decide whether anything overflows
        chk.cov["envelope"] = "unproven: " + mags[0]["info"][:300]
        vlib.log("NOTE: reported magnitudes leave the modelled envelope (%d events), e.g. %s" % (len(mags), mags[0]["info"][:200]))
    else:
        chk.cov["envelope"] = "every reported magnitude is inside the envelope proved by MC_Bounds"
    chk.leg("trace validation (Ring.tla judge + magnitude conformance)", mismatches=len(mism), magnitude_mismatches=len(mags),
            inputs="all 256 basis polynomials, call-site scalars, extremal sign patterns per range, random products vs schoolbook, zeta table, "
                   "matrix-vector rows with the real ExpandA, adversarial response vectors incl. the sparse-coset witnesses")
    common.mc_leg(chk, "MC_ToyRing", tier=tier, workers=12)
    common.mc_leg(chk, "MC_ToyRing", cfg=common.MC_DIR + "/MC_ToyRing_T2.cfg", workers=12)
    common.mc_variants(chk, "MC_Bounds", (44, 65, 87), tier=tier, workers=2)
    chk.cov["exhaustive"] = False
    chk.assumptions += ["linearity: the transform is fixed by its values on the 256 basis polynomials", "transfer functions of the bounds model (Montgomery/Barrett contracts proved in C15)"]
    return chk.finish()


def replay(path, seed):
    return run("quick", seed)
