"""C09 Key serialisation round-trips exactly and preserves behaviour."""
import vlib
from checks import common


def run(tier, seed):
    chk = vlib.Check("C09", "model_checking", tier, seed)
    bindir = vlib.build_harness("checked")
    nr = 64 if tier == "quick" else 3000
    tr = common.api_traces(chk, bindir, "roundtrip", nrandom=nr)
    n = common.validate_api(chk, tr, key_of=lambda e: "roundtrip:" + e.get("ev", ""))
    rel = vlib.build_harness("release")
    n2 = common.behaviours_leg(chk, rel, 90 if tier == "quick" else 1500)
    chk.leg("trace validation (Layer A judge)", events=n + n2,
            inputs="pk: all-00, all-FF, t1 = 1023 everywhere, single-bit walks, random strings; sk: generated keys re-serialised twice; derived keys")
    common.nohooks_leg(chk, "roundtrip", profile="checked", nrandom=16)
    common.crossset_leg(chk, bindir, rounds=2 if tier == "quick" else 12)
    common.mc_leg(chk, "MC_API", tier=tier)
    # the same serialisation invariant (one string per lineage, injective) without bounds: TLAPS
    common.tlaps_leg(chk)
    common.mc_variants(chk, "MC_Keys", (44, 65, 87), tier=tier, workers=2)
    chk.cov["exhaustive"] = False
    return chk.finish()


def replay(path, seed):
    return common.replay_api("C09", path)
