"""C06 Signatures are bound to context, mode and pre-hash function."""
import vlib
from checks import common


def run(tier, seed):
    chk = vlib.Check("C06", "model_checking", tier, seed)
    bindir = vlib.build_harness("release")
    nb = 8 if tier == "quick" else 120
    tr = common.api_traces(chk, bindir, "binding", nbase=nb)
    n = common.validate_api(chk, tr, key_of=lambda e: "binding:" + e.get("ev", ""))
    chk.leg("trace validation (Layer A judge)", events=n,
            alternatives=["every re-split of ctx||M", "every other mode / pre-hash function", "pure <-> pre-hash with M = OID||PH(M)", "context moved into the message"])
    # binding follows from (i) the code's message representative IS the specification's FormatMsg on a grid of
    # (mode, ctx, M) -- Sign = Sign_internal o FormatMsg and Verify = Verify_internal o FormatMsg, judged by Layer F --
    # and (ii) FormatMsg is injective (MC_Format below)
    import os
    chk2 = vlib.build_harness("checked")
    fdir = os.path.join(chk.workdir, "f")
    for s in (44, 65, 87):
        vlib.drive(chk2, "sign", sets=s, seed=seed + 5, nfull=0, nfactor=28 if tier == "quick" else 112, allctx=0 if tier == "quick" else 1, out=fdir)
    common.validate_f(chk, {s: os.path.join(fdir, "sign_%d.ndjson" % s) for s in (44, 65, 87)}, nproc=9, chunks_per_set=3, key_of=lambda m: "format:" + m["ev"])
    common.nohooks_leg(chk, "binding", nbase=3)
    common.mc_leg(chk, "MC_Format", tier=tier, workers=12)
    for v in ("nodom", "nolen"):
        common.mc_leg(chk, "MC_Format", cfg=common.MC_DIR + "/MC_Format_%s.cfg" % v, expect_violation=True, workers=4)
    chk.cov["exhaustive"] = False
    chk.assumptions += ["ideal-functionality judge (SHAKE256 / pre-hash collision resistance)"]
    return chk.finish()


def replay(path, seed):
    return common.replay_api("C06", path)
