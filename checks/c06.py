"""C06 Signatures are bound to context, mode and pre-hash function."""
import vlib
from checks import common


def run(tier, seed):
    chk = vlib.Check("C06", "model_checking", tier, seed)
    bindir = vlib.build_harness("release")
    nb = 8 if tier == "quick" else 120
    tr = common.api_traces(chk, bindir, "binding", nbase=nb)
    n = common.validate_api(chk, tr, key_of=lambda e: "binding:" + e.get("ev", ""))
    chk.leg("trace validation (Layer A judge)", events=n,
            alternatives=["every re-split of ctx||M", "every other mode / pre-hash function", "pure <-> pre-hash with M = OID||PH(M)", "context moved into the message"])
    common.mc_leg(chk, "MC_Format", tier=tier, workers=12)
    for v in ("nodom", "nolen"):
        common.mc_leg(chk, "MC_Format", cfg=common.MC_DIR + "/MC_Format_%s.cfg" % v, expect_violation=True, workers=4)
    chk.cov["exhaustive"] = False
    chk.assumptions += ["ideal-functionality judge (SHAKE256 / pre-hash collision resistance)"]
    return chk.finish()


def replay(path, seed):
    return common.replay_api("C06", path)
