"""C17 Every supported feature combination builds and behaves the same."""
import json
import os
import re
import shutil
import subprocess
from concurrent.futures import ThreadPoolExecutor

import vlib
from checks import common

PROBE = os.path.join(vlib.HARNESS, "cfgprobe")
SETN = ["ml-dsa-44", "ml-dsa-65", "ml-dsa-87"]


def sh(cmd, cwd=None, timeout=1800):
    e = dict(os.environ)
    e["CARGO_NET_OFFLINE"] = "true"
    return subprocess.run(cmd, cwd=cwd, env=e, stdout=subprocess.PIPE, stderr=subprocess.STDOUT, text=True, timeout=timeout)


def build_one(args):
    cfg, tdir, negatives = args
    feats = [SETN[i] for i in range(3) if cfg["sets"][i]] + (["default-rng"] if cfg["rng"] else []) + (["dudect"] if cfg["dudect"] else [])
    f = ",".join(feats)
    ev = dict(ev="Build", sets=cfg["sets"], rng=cfg["rng"], dudect=cfg["dudect"], features=f)
    # 1. the library alone, as a user would build it (the crate itself denies warnings)
    p = sh(["cargo", "build", "--offline", "--lib", "--manifest-path", os.path.join(vlib.REPO, "Cargo.toml"), "--no-default-features", "--features", f, "--target-dir", tdir])
    ev["lib_ok"] = p.returncode == 0
    ev["warnings"] = len(re.findall(r"^warning(?!: unused manifest key)", p.stdout, re.M))
    if not ev["lib_ok"]:
        ev["lib_error"] = p.stdout[-800:]
    # 2. no_std: the library objects must not reference the std crate
    rlib = os.path.join(tdir, "debug", "libfips204.rlib")
    if os.path.exists(rlib):
        nm = sh(["nm", "-u", rlib])
        ev["std_symbols"] = len(re.findall(r"_ZN3std|_RNv[^ ]*3std", nm.stdout))
    else:
        ev["std_symbols"] = -1
    # 3. the probe references exactly the items of the model and prints behaviour digests
    # (release profile: the dudect entry point trips the library's own debug assertions on some RNG outputs -- a recorded C13 finding, not a configuration matter)
    p = sh(["cargo", "run", "--offline", "--quiet", "--release", "--manifest-path", os.path.join(PROBE, "Cargo.toml"), "--no-default-features", "--features", f, "--target-dir", tdir])
    ev["probe_ok"] = p.returncode == 0
    ev["digests"] = {m.group(1): m.group(2) for m in re.finditer(r"^DIGEST (\d+) ([0-9a-f]+)$", p.stdout, re.M)}
    ev["ct_digests"] = {m.group(1): m.group(2) for m in re.finditer(r"^DIGESTD (\d+) ([0-9a-f]+)$", p.stdout, re.M)}
    if not ev["probe_ok"]:
        ev["probe_error"] = p.stdout[-800:]
    # 3b. a freestanding no_std consumer with its own panic handler must compile against this configuration
    NOSTD = os.path.join(vlib.HARNESS, "nostdprobe")
    if not os.path.exists(os.path.join(NOSTD, "Cargo.lock")):
        shutil.copy(os.path.join(vlib.REPO, "Cargo.lock"), os.path.join(NOSTD, "Cargo.lock"))
    q = sh(["cargo", "build", "--offline", "--quiet", "--manifest-path", os.path.join(NOSTD, "Cargo.toml"), "--features", f, "--target-dir", tdir + "-nostd"])
    ev["nostd_consumer_ok"] = q.returncode == 0
    if q.returncode != 0:
        ev["nostd_error"] = "\n".join(l for l in q.stdout.splitlines() if l.startswith("error") or "lang item" in l or "first defined" in l)[:600]
    # 4. negative probes: an item behind a gate that is off must not exist
    neg = {}
    cand = [("neg-44", not cfg["sets"][0]), ("neg-65", not cfg["sets"][1]), ("neg-87", not cfg["sets"][2]), ("neg-rng", not cfg["rng"]), ("neg-dudect", not cfg["dudect"])]
    for name, applicable in cand:
        if applicable and name in negatives:
            q = sh(["cargo", "build", "--offline", "--quiet", "--manifest-path", os.path.join(PROBE, "Cargo.toml"), "--no-default-features", "--features", f + "," + name, "--target-dir", tdir])
            neg[name] = "rejected" if q.returncode != 0 and "error" in q.stdout else "compiled"
    ev["negative"] = neg
    return ev


def run(tier, seed):
    chk = vlib.Check("C17", "exploration", tier, seed)
    # the configuration space and gate semantics come from the model
    r = common.mc_leg(chk, "MC_Features", workers=1, coverage=False)
    cfgs = []
    for ln in r["out"].splitlines():
        m = re.match(r'^<<"CONFIG", "(.*)">>$', ln)
        if m:
            c = json.loads(m.group(1).replace('\\"', '"'))
            if c not in cfgs:
                cfgs.append(c)
    if len(cfgs) != 28:
        raise vlib.ToolError("MC_Features emitted %d configurations, expected 28" % len(cfgs))
    if not os.path.exists(os.path.join(PROBE, "Cargo.lock")):
        shutil.copy(os.path.join(vlib.REPO, "Cargo.lock"), os.path.join(PROBE, "Cargo.lock"))
    nw = 6
    tdirs = [os.path.join(vlib.WORK, "C17-target-%d" % i) for i in range(nw)]
    allneg = ["neg-44", "neg-65", "neg-87", "neg-rng", "neg-dudect"]
    jobs = []
    for i, c in enumerate(cfgs):
        negs = allneg if tier == "thorough" else [allneg[(i + seed) % 5]]
        jobs.append((c, i % nw, negs))
    # one worker per target directory, configurations in sequence inside it
    def worker(k):
        return [build_one((c, tdirs[k], negs)) for (c, w, negs) in jobs if w == k]
    with ThreadPoolExecutor(max_workers=nw) as ex:
        evs = [e for part in ex.map(worker, range(nw)) for e in part]
    for d in tdirs:
        shutil.rmtree(d, ignore_errors=True)
        shutil.rmtree(d + "-nostd", ignore_errors=True)
    trace = os.path.join(chk.workdir, "features.ndjson")
    with open(trace, "w") as f:
        for e in evs:
            f.write(json.dumps(e) + "\n")
    cfg = os.path.join(chk.workdir, "TraceFeatures.cfg")
    vlib.write_cfg(cfg, "", "SPECIFICATION Spec\nCHECK_DEADLOCK FALSE\nPOSTCONDITION Accepted")
    t = vlib.tlc(os.path.join(common.TRACE_DIR, "TraceFeatures.tla"), cfg, os.path.join(chk.workdir, "tlc"), env={"TRACE": trace}, workers=1, timeout=600)
    chk.add_tlc(t, traces=1)
    d = vlib.parse_done(t["out"])
    if d is None:
        # the specification rejected the trace: report every configuration that violates the rule
        default = {(tuple(e["sets"]), e["rng"], e["dudect"]): e for e in evs}
        bad = 0
        for e in evs:
            ref = default.get(((1, 1, 1), True, False))
            refd = default.get(((1, 1, 1), True, True))
            okd = ref is not None and all(e["digests"].get(k) == ref["digests"].get(k) for k in e["digests"]) and \
                (not e["dudect"] or (refd is not None and e["ct_digests"] and all(e["ct_digests"].get(k) == refd["ct_digests"].get(k) for k in e["ct_digests"])))
            ok = e["lib_ok"] and e["warnings"] == 0 and e["std_symbols"] == 0 and e["nostd_consumer_ok"] and e["probe_ok"] and okd and all(v == "rejected" for v in e["negative"].values()) \
                and set(e["digests"]) == {n for n, on in zip(("44", "65", "87"), e["sets"]) if on}
            if not ok:
                bad += 1
                chk.violation("features:" + e["features"], "configuration [%s]: build/behaviour differs from the model: %s" % (
                    e["features"], json.dumps({k: v for k, v in e.items() if k not in ("ev",)})[:500]), dict(event=e, reference=ref))
        if bad == 0:
            raise vlib.ToolError("TraceFeatures rejected the trace but no configuration is individually bad:\n" + t["out"][-2000:])
    chk.cov["evaluations"] = len(evs)
    chk.cov["distinct_nontrivial"] = len({e["features"] for e in evs})
    chk.cov["rule"] = ("all 7 non-empty subsets of {ml-dsa-44, ml-dsa-65, ml-dsa-87} x default-rng on/off x dudect on/off, enumerated by TLC from MC_Features; each: library build with warnings denied, "
                       "no undefined std symbols in the rlib, a freestanding no_std consumer (own panic handler) compiles, probe referencing exactly the model's items, behaviour digest per enabled set equal to the full configuration's, negative probes rejected")
    for e in evs[:3]:
        chk.sample({k: v for k, v in e.items() if k != "ev"})
    chk.cov["exhaustive"] = True
    chk.assumptions += ["no bare-metal target is installed: no_std is checked by the absence of std symbols in the library objects, not by linking for a target without std"]
    return chk.finish()


def replay(path, seed):
    return run("quick", seed)
