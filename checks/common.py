"""Shared pieces of the per-property checks."""
import json
import os
import re

import vlib

TRACE_DIR = os.path.join(vlib.SPEC, "trace")


def tracef_cfg(workdir, setno):
    p = os.path.join(workdir, "TraceF%d.cfg" % setno)
    vlib.write_cfg(p, vlib.cfg_constants(setno),
                   "SPECIFICATION Spec\nVIEW View\nCHECK_DEADLOCK FALSE\nPOSTCONDITION Accepted")
    return p


def brief(ev, maxlen=24):
    """A printable abbreviation of an event (byte arrays -> hex prefix + length)."""
    out = {}
    for k, v in ev.items():
        if isinstance(v, list) and v and all(isinstance(x, int) for x in v) and not all(0 <= x < 256 for x in v):
            out[k] = "%s..(%d ints)" % (v[:4], len(v)) if len(v) > 8 else v
        elif isinstance(v, list) and len(v) > 8 and not all(isinstance(x, int) for x in v):
            out[k] = "[%d items]" % len(v)
        elif isinstance(v, list) and v and all(isinstance(x, int) for x in v):
            out[k] = "%s..(%d bytes)" % (bytes(v[:8]).hex(), len(v)) if len(v) > 8 else bytes(v).hex()
        elif isinstance(v, str) and len(v) > maxlen * 2:
            out[k] = v[:16] + "..(%d chars)" % len(v)
        else:
            out[k] = v
    return out


def validate_f(chk, traces_by_set, nproc=8, chunks_per_set=None, key_of=None, timeout=2400):
    """Split each per-set trace into chunks, validate every chunk with its own TLC process against
    TraceF (Layer F as the judge), record coverage, and turn mismatches into violations.
    key_of(event) -> known-finding key."""
    total_events = 0
    jobs = []
    for setno, path in traces_by_set.items():
        n = sum(1 for ln in open(path) if ln.strip())
        total_events += n
        k = chunks_per_set or max(1, min(nproc, n // 4 if n >= 8 else 1))
        parts = vlib.split_ndjson(path, k, os.path.join(chk.workdir, "chunks"), "s%d" % setno)
        cfg = tracef_cfg(chk.workdir, setno)
        for p in parts:
            jobs.append((setno, cfg, p))
    all_mism = []
    kinds = {}
    # one validate_traces call per set (cfg differs), run concurrently through tlc_many
    tl_jobs = []
    for i, (setno, cfg, p) in enumerate(jobs):
        tl_jobs.append(dict(module=os.path.join(TRACE_DIR, "TraceF.tla"), cfg=cfg,
                            workdir=os.path.join(chk.workdir, "tlc%03d" % i), env={"TRACE": p},
                            workers=1, timeout=timeout, xmx="3g"))
    res = vlib.tlc_many(tl_jobs, maxproc=nproc)
    for (setno, cfg, p), r in zip(jobs, res):
        nlines = sum(1 for ln in open(p) if ln.strip())
        d = vlib.parse_done(r["out"])
        if r["rc"] != 0 or d is None:
            raise vlib.ToolError("TLC did not finish trace %s (rc=%s)\n%s" % (p, r["rc"], r["out"][-3000:]))
        if d["n"] != nlines:
            raise vlib.ToolError("TLC consumed %s of %d events of %s" % (d["n"], nlines, p))
        chk.add_tlc(r, traces=1)
        evs = [json.loads(x) for x in open(p) if x.strip()]
        for e in evs:
            kinds[e["ev"]] = kinds.get(e["ev"], 0) + 1
        if evs:
            chk.sample(dict(set=setno, event=brief(evs[0])))
        infos = vlib.mismatch_infos(r["out"])
        for idx in d["lists"].get("mismatches", []):
            all_mism.append(dict(set=setno, trace=p, index=idx, ev=evs[idx - 1]["ev"], info=infos.get(("MISMATCH", idx), ""), event=evs[idx - 1]))
    chk.add("events_judged_by_spec", total_events)
    chk.cov.setdefault("event_kinds", {})
    for k, v in kinds.items():
        chk.cov["event_kinds"][k] = chk.cov["event_kinds"].get(k, 0) + v
    for mm in all_mism:
        key = key_of(mm) if key_of else "%s:%s" % (mm["ev"], mm["event"].get("family", ""))
        what = "set %d: %s event #%d disagrees with the FIPS 204 specification: %s | %s" % (
            mm["set"], mm["ev"], mm["index"], mm["info"][:300], json.dumps(brief(mm["event"]))[:400])
        chk.violation(key, what, dict(set=mm["set"], event=mm["event"], spec_says=mm["info"]))
    return total_events, all_mism


# ---------------------------------------------------------------- ACVP anchoring of Layer F
NV = os.path.join(vlib.REPO, "tests/nist_vectors")


def _hx(s):
    return list(bytes.fromhex(s))


def acvp_groups(kind):
    f = os.path.join(NV, "ML-DSA-%s-FIPS204" % kind, "internalProjection.json")
    try:
        return json.load(open(f))["testGroups"]
    except Exception:
        return []


def acvp_spec_trace(path, setno, nkey, nsig, nver, off):
    """Events whose expected results come from the ACVP files, NOT from the library: validating
    them anchors the TLA+ transcription to NIST independently of the code under test."""
    evs = []
    name = "ML-DSA-%d" % setno
    for g in acvp_groups("keyGen"):
        if g["parameterSet"] == name:
            t = g["tests"]
            for i in range(min(nkey, len(t))):
                x = t[(off + i) % len(t)]
                evs.append(dict(ev="KeyGen", xi=_hx(x["seed"]), pk=_hx(x["pk"]), sk=_hx(x["sk"]), acvp_tc=x["tcId"]))
    sg = [(g, x) for g in acvp_groups("sigGen") if g["parameterSet"] == name for x in g["tests"]]
    for i in range(min(nsig, len(sg))):
        g, x = sg[(off * 7 + i * 11) % len(sg)]
        rnd = _hx(x["rnd"]) if "rnd" in x else [0] * 32
        evs.append(dict(ev="SignInternal", sk=_hx(x["sk"]), mp=_hx(x["message"]), rnd=rnd, sig=_hx(x["signature"]), acvp_tc=x["tcId"]))
    sv = [(g, x) for g in acvp_groups("sigVer") if g["parameterSet"] == name for x in g["tests"]]
    for i in range(min(nver, len(sv))):
        g, x = sv[(off * 5 + i) % len(sv)]
        evs.append(dict(ev="VerifyInternal", pk=_hx(g["pk"]), mp=_hx(x["message"]), sig=_hx(x["signature"]),
                        res=bool(x["testPassed"]), acvp_tc=x["tcId"], reason=x.get("reason", "")))
    with open(path, "w") as f:
        for e in evs:
            f.write(json.dumps(e) + "\n")
    return len(evs)


def acvp_anchor(chk, nkey, nsig, nver, off, nproc=6):
    """Run the ACVP-expected events through TraceF.  A mismatch here means the SPECIFICATION (or
    its hash helper) is wrong, which is a tool error, never a violation of the code."""
    jobs, meta = [], []
    for s in (44, 65, 87):
        p = os.path.join(chk.workdir, "acvp_%d.ndjson" % s)
        n = acvp_spec_trace(p, s, nkey, nsig, nver, off)
        if n == 0:
            continue
        jobs.append(dict(module=os.path.join(TRACE_DIR, "TraceF.tla"), cfg=tracef_cfg(chk.workdir, s),
                         workdir=os.path.join(chk.workdir, "acvp%d" % s), env={"TRACE": p}, workers=1, timeout=1800, xmx="3g"))
        meta.append((s, n))
    res = vlib.tlc_many(jobs, maxproc=nproc)
    tot = 0
    for (s, n), r in zip(meta, res):
        done = [ln for ln in r["prints"] if ln.startswith('<<"TRACE_DONE", %d, "mismatches", <<>>>>' % n)]
        if r["rc"] != 0 or not done:
            raise vlib.ToolError("the TLA+ specification disagrees with the ACVP vectors for ML-DSA-%d (specification or helper defect):\n%s"
                                 % (s, "\n".join(r["prints"])[-2000:] or r["out"][-2000:]))
        chk.add_tlc(r)
        tot += n
    chk.leg("specification anchored to ACVP vectors (independent of the code)", events=tot)
    return tot


def acvp_siggen_file(path):
    """Flat list of ACVP sigGen inputs for the harness (it signs them with the library)."""
    out = []
    for g in acvp_groups("sigGen"):
        setno = int(g["parameterSet"].split("-")[-1])
        for x in g["tests"]:
            out.append(dict(set=setno, sk=x["sk"].lower(), message=x["message"].lower(), rnd=x.get("rnd", "00" * 32).lower(), tc=x["tcId"]))
    json.dump(out, open(path, "w"))
    return len(out)


# ---------------------------------------------------------------- Layer A trace validation
API_CFG = os.path.join(TRACE_DIR, "TraceAPI.cfg")


def api_traces(chk, bindir, scenario, sets=(44, 65, 87), outdir=None, **kw):
    """Run one harness scenario per set concurrently; returns {set: path}."""
    from concurrent.futures import ThreadPoolExecutor
    outdir = outdir or os.path.join(chk.workdir, "api")
    with ThreadPoolExecutor(max_workers=3) as ex:
        list(ex.map(lambda s: vlib.drive(bindir, "api", scenario=scenario, sets=s, seed=chk.seed, out=outdir, **kw), sets))
    return {s: os.path.join(outdir, "api_%s_%d.ndjson" % (scenario, s)) for s in sets}


def crossset_leg(chk, bindir, rounds=3):
    """All three parameter sets interleaved in ONE process, sharing seeds and rho between sets: what one set did before must
    not change what another computes (state kept in statics, caches shared between instantiations of generic code)."""
    outdir = os.path.join(chk.workdir, "crossset")
    vlib.drive(bindir, "api", scenario="crossset", seed=chk.seed, rounds=rounds, out=outdir)
    tr = {"crossset-%d" % s: os.path.join(outdir, "api_crossset_%d.ndjson" % s) for s in (44, 65, 87)}
    n = validate_api(chk, tr, key_of=lambda e: "crossset:" + e.get("ev", ""))
    chk.leg("three parameter sets interleaved in one process (shared seeds and rho)", events=n)
    return n


def validate_api(chk, traces, key_of=None, nproc=6, max_rejects=4, timeout=1800):
    """Validate traces against Layer A.  A rejected line is a violation (with that line as the
    replay); the line is then removed and the rest of the trace is validated again."""
    import re
    pending = [(name, path, 0) for name, path in traces.items()]
    total = 0
    while pending:
        jobs = [dict(module=os.path.join(TRACE_DIR, "TraceAPI.tla"), cfg=API_CFG, workdir=os.path.join(chk.workdir, "tlca_%s_%d" % (str(name), rnd)),
                     env={"TRACE": path}, workers=1, timeout=timeout, xmx="4g") for name, path, rnd in pending]
        res = vlib.tlc_many(jobs, maxproc=nproc)
        nxt = []
        for (name, path, rnd), r in zip(pending, res):
            lines = [ln for ln in open(path) if ln.strip()]
            acc = [ln for ln in r["prints"] if ln.startswith('<<"TRACE_ACCEPTED"')]
            rej = [ln for ln in r["prints"] if ln.startswith('<<"TRACE_REJECTED_AT"')]
            chk.add_tlc(r, traces=1 if acc else 0)
            if acc and r["rc"] == 0:
                total += len(lines)
                if lines:
                    chk.sample(dict(trace=str(name), first_event=brief(json.loads(lines[0])), events=len(lines)))
                continue
            if not rej:
                raise vlib.ToolError("TLC failed on trace %s (rc=%s):\n%s" % (path, r["rc"], r["out"][-3000:]))
            n = int(re.match(r'<<"TRACE_REJECTED_AT", (\d+)>>', rej[0]).group(1))
            ev = json.loads(lines[n - 1])
            key = key_of(ev) if key_of else "api:%s" % ev.get("ev")
            what = "trace %s: the API state machine has no step matching line %d: %s" % (name, n, json.dumps(ev)[:500])
            chk.violation(key, what, dict(trace=str(name), line=n, event=ev, prefix=[json.loads(x) for x in lines[max(0, n - 6):n - 1]]))
            if rnd + 1 < max_rejects:
                p2 = path + ".r%d" % (rnd + 1)
                with open(p2, "w") as f:
                    f.writelines(lines[:n - 1] + lines[n:])
                nxt.append((name, p2, rnd + 1))
        pending = nxt
    chk.add("events_judged_by_spec", total)
    return total


# ---------------------------------------------------------------- design-level model checking legs
MC_DIR = os.path.join(vlib.SPEC, "mc")


def mc_leg(chk, name, tier="quick", cfg=None, workers=8, timeout=3000, xmx="8g", must_print=None, env=None, expect_violation=False, coverage=True):
    """Run spec/mc/<name>.tla with <name>.cfg (or <name>_thorough.cfg in the thorough tier when it
    exists) under -coverage 1.  A failure of a design-level check is a defect of the
    specification, i.e. a tool error, not a violation of the code."""
    if cfg is None:
        cfg = os.path.join(MC_DIR, name + ".cfg")
        t = os.path.join(MC_DIR, name + "_thorough.cfg")
        if tier == "thorough" and os.path.exists(t):
            cfg = t
    r = vlib.tlc(os.path.join(MC_DIR, name.split(":")[0] + ".tla"), cfg, os.path.join(chk.workdir, "mc_" + os.path.basename(cfg)), workers=workers,
                 timeout=timeout, xmx=xmx, extra=["-coverage", "1"] if coverage else [], env=env)
    ok = r["rc"] == 0 and "No error has been found" in r["out"]
    if expect_violation:
        if "is violated" not in r["out"]:
            raise vlib.ToolError("non-vacuity run %s was expected to produce a counterexample and did not" % cfg)
        chk.leg("mc:" + os.path.basename(cfg), counterexample_found=True, wall_s=round(r["wall"], 1))
        return r
    if not ok:
        raise vlib.ToolError("design-level model check %s failed (specification defect):\n%s" % (cfg, r["out"][-3500:]))
    acts = vlib.coverage_actions(r["out"])
    never = [a for a, (d, t) in acts.items() if t == 0 and not a.startswith("Action")]
    if never:
        raise vlib.ToolError("model check %s: actions never taken (vacuous): %s" % (cfg, never))
    if must_print:
        for s in must_print:
            if s not in r["out"]:
                raise vlib.ToolError("model check %s: expected coverage marker %r missing" % (cfg, s))
    chk.add_tlc(r)
    chk.leg("mc:" + os.path.basename(cfg), states=r["distinct"], transitions=r["generated"], wall_s=round(r["wall"], 1),
            actions={a: t for a, (d, t) in acts.items()})
    return r


def behaviours_leg(chk, bindir, nbeh, depth=15, sets=(44, 65, 87)):
    """M2a: TLC generates behaviours of the API state machine (simulation of MC_API); the harness
    executes each against the real library; the recorded trace is validated against Layer A."""
    r = vlib.tlc(os.path.join(MC_DIR, "MC_API.tla"), os.path.join(MC_DIR, "MC_API_sim.cfg"), os.path.join(chk.workdir, "mc_api_sim"),
                 workers=1, timeout=900, xmx="4g", simulate="num=%d" % max(20, nbeh // 40), extra=["-depth", str(depth), "-seed", str(chk.seed + 11)])
    seen, lines = set(), []
    for ln in r["out"].splitlines():
        if ln.startswith('<<"REPLAY", "'):
            s = ln[len('<<"REPLAY", "'):-3].replace('\\"', '"')
            if s not in seen:
                seen.add(s)
                lines.append(s)
    if len(lines) < 10:
        raise vlib.ToolError("MC_API simulation produced only %d behaviours\n%s" % (len(lines), r["out"][-2000:]))
    import random
    random.Random(chk.seed).shuffle(lines)
    lines = lines[:nbeh]
    traces = {}
    for i, s in enumerate(sets):
        part = lines[i::len(sets)]
        f = os.path.join(chk.workdir, "behaviours_%d.jsonl" % s)
        open(f, "w").write("\n".join(part) + "\n")
        out = os.path.join(chk.workdir, "beh")
        vlib.drive(bindir, "api", scenario="behaviours", sets=s, seed=chk.seed, file=f, out=out)
        traces["behaviours-%d" % s] = os.path.join(out, "api_behaviours_%d.ndjson" % s)
    n = validate_api(chk, traces, key_of=lambda e: "behaviour:" + e.get("ev", ""))
    chk.leg("behaviour replay (spec -> implementation)", behaviours=len(lines), calls_per_behaviour=depth - 1, events=n)
    chk.sample(dict(behaviour=json.loads(lines[0])[:6]))
    return n


def replay_api(pid, path):
    """A Layer-A replay file holds the rejected line and the lines before it; the scenario that
    produced it is deterministic in (seed, tier), so the replay re-runs the check's quick tier."""
    import importlib
    rep = json.load(open(path))
    vlib.log("replaying by re-running the check (deterministic scenarios); rejected line was:", json.dumps(rep.get("replay", {}).get("event"))[:300])
    return importlib.import_module("checks." + pid.lower()).run("quick", int(os.environ.get("VERIF_SEED", "1")))


def mc_variants(chk, base, variants, tier="quick", **kw):
    """Run spec/mc/<base>.tla once per variant configuration <base>_<variant>[_thorough].cfg."""
    for v in variants:
        cfg = os.path.join(MC_DIR, "%s_%s.cfg" % (base, v))
        t = os.path.join(MC_DIR, "%s_%s_thorough.cfg" % (base, v))
        if tier == "thorough" and os.path.exists(t):
            cfg = t
        mc_leg(chk, base, tier=tier, cfg=cfg, **kw)


def apalache_leg(chk, what="AP_Kernels"):
    """Symbolic one-step checks of the 64-bit kernel contracts over their whole input domains
    (Apalache/Z3), plus one deliberately wrong contract that must be refuted."""
    import subprocess
    import time
    queries = [("AP_Mont.tla", None, "MontContract", True), ("AP_Mont.tla", None, "MontMagnitude", True), ("AP_Mont.tla", None, "MontTooTight", False),
               ("AP_Kernels.tla", "NextPR64", "PR64Contract", True), ("AP_Kernels.tla", "NextPR32", "PR32Contract", True),
               ("AP_Kernels.tla", "NextDec", "DecContract", True)]
    ok = 0
    for mod, nxt, inv, holds in queries:
        out = os.path.join(chk.workdir, "apa_" + inv)
        cmd = ["apalache-mc", "check", "--out-dir=" + out, "--inv=" + inv, "--length=1"] + (["--next=" + nxt] if nxt else []) + [mod]
        t0 = time.time()
        try:
            p = subprocess.run(cmd, cwd=MC_DIR, stdout=subprocess.PIPE, stderr=subprocess.STDOUT, text=True, timeout=900)
        except subprocess.TimeoutExpired:
            raise vlib.ToolError("apalache timed out on " + inv)
        noerr = "The outcome is: NoError" in p.stdout
        if holds != noerr:
            raise vlib.ToolError("apalache: contract %s %s\n%s" % (inv, "not proved" if holds else "unexpectedly holds", p.stdout[-1500:]))
        ok += 1
        chk.leg("apalache:" + inv, outcome="proved over the whole input range" if holds else "refuted (non-vacuity)", wall_s=round(time.time() - t0, 1))
        import shutil
        shutil.rmtree(out, ignore_errors=True)
    chk.cov["obligations"] = len(queries)
    chk.cov["discharged"] = ok
    chk.cov["checker_cmd"] = "apalache-mc check --inv=<Contract> --length=1 [--next=<Next>] spec/mc/AP_*.tla"
    chk.cov["trusted_base"] = ["Apalache 0.58 / Z3", "the TLA+ transcription of the kernels (tied to the code by the native sweeps against the same contracts)"]


def tlaps_leg(chk, module="API_proofs"):
    """TLAPS proof (unbounded: any number of key objects and calls) of an inductive invariant of Layer A; every
    obligation is re-proved from scratch (no fingerprint cache) in a scratch copy."""
    import shutil
    import subprocess
    import time
    d = os.path.join(chk.workdir, "tlaps")
    shutil.rmtree(d, ignore_errors=True)
    os.makedirs(d)
    shutil.copy(os.path.join(vlib.VERIF, "spec", "proofs", module + ".tla"), d)
    shutil.copy(os.path.join(vlib.VERIF, "spec", "API.tla"), d)
    t0 = time.time()
    try:
        p = subprocess.run(["tlapm", "--threads", "6", "--cleanfp", module + ".tla"], cwd=d, stdout=subprocess.PIPE, stderr=subprocess.STDOUT, text=True, timeout=1500)
    except subprocess.TimeoutExpired:
        raise vlib.ToolError("tlapm timed out on " + module)
    m = re.search(r"All (\d+) obligations? proved", p.stdout)
    if not m:
        raise vlib.ToolError("TLAPS proof %s is not complete (specification defect):\n%s" % (module, p.stdout[-2500:]))
    chk.leg("tlaps:" + module, obligations_proved=int(m.group(1)), wall_s=round(time.time() - t0, 1),
            theorems="for the API state machine with unconstrained arguments (no bound on keys, calls, messages): ASpec => []DroppedIsZero; ASpec => [](SigFunctional /\\ SerInjective /\\ FmtInjective); ASpec => [][issued only grows, sigof only extends]_vars; ASpec => [][a call reporting an error creates nothing]_vars; ASpec => [](RNG request log is empty, one or two fallible 32-byte requests)")
    shutil.rmtree(d, ignore_errors=True)


# ---------------------------------------------------------------- generic judged traces (TraceRing, TraceCodec)
def validate_judged(chk, module, jobs, nproc=8, timeout=2400, chunk=0):
    """jobs: list of (setno, trace path).  Each trace is validated by `module` (which prints
    MISMATCH / MAGNITUDE lines and a final TRACE_DONE) under the constants of setno, optionally
    split into chunks of `chunk` events.  Returns (mismatches, magnitudes): lists of
    dict(set, index, ev, info, event)."""
    import re
    tl, meta = [], []
    for setno, path in jobs:
        parts = [path]
        n = sum(1 for ln in open(path) if ln.strip())
        if n == 0:
            continue
        if chunk and n > chunk:
            parts = vlib.split_ndjson(path, (n + chunk - 1) // chunk, os.path.join(chk.workdir, "chunks"), "%s_s%d" % (os.path.basename(path)[:-7], setno))
        cfg = os.path.join(chk.workdir, "%s_%d.cfg" % (os.path.basename(module)[:-4], setno))
        vlib.write_cfg(cfg, vlib.cfg_constants(setno), "SPECIFICATION Spec\nVIEW View\nCHECK_DEADLOCK FALSE")
        for p in parts:
            tl.append(dict(module=module, cfg=cfg, workdir=os.path.join(chk.workdir, "tj%03d" % len(tl)), env={"TRACE": p}, workers=1, timeout=timeout, xmx="3g"))
            meta.append((setno, p))
    res = vlib.tlc_many(tl, maxproc=nproc)
    mism, mags, judged = [], [], 0
    for (setno, p), r in zip(meta, res):
        evs = [json.loads(x) for x in open(p) if x.strip()]
        d = vlib.parse_done(r["out"])
        if r["rc"] != 0 or d is None or d["n"] != len(evs):
            raise vlib.ToolError("%s did not finish %s (rc=%s):\n%s" % (os.path.basename(module), p, r["rc"], r["out"][-3000:]))
        judged += d["nums"].get("judged", 0)
        chk.add_tlc(r, traces=1)
        infos = vlib.mismatch_infos(r["out"])
        for idx in d["lists"].get("mismatches", []):
            mism.append(dict(set=setno, index=idx, ev=evs[idx - 1]["ev"], info=infos.get(("MISMATCH", idx), ""), event=evs[idx - 1]))
        for idx in d["lists"].get("magnitude", []):
            mags.append(dict(set=setno, index=idx, ev=evs[idx - 1]["ev"], info=infos.get(("MAGNITUDE", idx), ""), event=evs[idx - 1]))
        if evs:
            chk.sample(dict(set=setno, event=brief(evs[min(3, len(evs) - 1)])))
    chk.add("events_judged_by_spec", judged)
    return mism, mags


def native_leg(chk, scenario, sets=(44, 65, 87), profile="release", **kw):
    """The same API-level scenario on a build for the host CPU (-C target-cpu=native): code selected by
    cfg(target_feature = ...) is compiled only there, and the properties are about every build a user can make."""
    bindir = vlib.build_harness(profile, hooks=True, native=True)
    tr = api_traces(chk, bindir, scenario, sets=sets, outdir=os.path.join(chk.workdir, "native_" + scenario), **kw)
    n = validate_api(chk, {"native-%s-%d" % (scenario, s): p for s, p in tr.items()}, key_of=lambda e: "native:%s:%s" % (scenario, e.get("ev", "")))
    chk.leg("same scenario, library built with -C target-cpu=native: " + scenario, events=n)
    return n


def nohooks_leg(chk, scenario, sets=(44, 65, 87), profile="release", **kw):
    """The same API-level scenario on a harness built against the library WITHOUT the verif-hooks feature: what the
    hooks observe must not differ from what an ordinary user gets (and nothing keyed on that feature can hide)."""
    bindir = vlib.build_harness(profile, hooks=False)
    tr = api_traces(chk, bindir, scenario, sets=sets, outdir=os.path.join(chk.workdir, "nohooks_" + scenario), **kw)
    n = validate_api(chk, {"nohooks-%s-%d" % (scenario, s): p for s, p in tr.items()}, key_of=lambda e: "nohooks:%s:%s" % (scenario, e.get("ev", "")))
    chk.leg("same scenario, library built without verif-hooks: " + scenario, events=n)
    return n
