"""Shared pieces of the per-property checks."""
import json
import os

import vlib

TRACE_DIR = os.path.join(vlib.SPEC, "trace")


def tracef_cfg(workdir, setno):
    p = os.path.join(workdir, "TraceF%d.cfg" % setno)
    vlib.write_cfg(p, vlib.cfg_constants(setno),
                   "SPECIFICATION Spec\nVIEW View\nCHECK_DEADLOCK FALSE\nPOSTCONDITION Accepted")
    return p


def brief(ev, maxlen=24):
    """A printable abbreviation of an event (byte arrays -> hex prefix + length)."""
    out = {}
    for k, v in ev.items():
        if isinstance(v, list) and v and all(isinstance(x, int) for x in v):
            out[k] = "%s..(%d bytes)" % (bytes(v[:8]).hex(), len(v)) if len(v) > 8 else bytes(v).hex()
        elif isinstance(v, str) and len(v) > maxlen * 2:
            out[k] = v[:16] + "..(%d chars)" % len(v)
        else:
            out[k] = v
    return out


def validate_f(chk, traces_by_set, nproc=8, chunks_per_set=None, key_of=None, timeout=2400):
    """Split each per-set trace into chunks, validate every chunk with its own TLC process against
    TraceF (Layer F as the judge), record coverage, and turn mismatches into violations.
    key_of(event) -> known-finding key."""
    total_events = 0
    jobs = []
    for setno, path in traces_by_set.items():
        n = sum(1 for ln in open(path) if ln.strip())
        total_events += n
        k = chunks_per_set or max(1, min(nproc, n // 4 if n >= 8 else 1))
        parts = vlib.split_ndjson(path, k, os.path.join(chk.workdir, "chunks"), "s%d" % setno)
        cfg = tracef_cfg(chk.workdir, setno)
        for p in parts:
            jobs.append((setno, cfg, p))
    all_mism = []
    kinds = {}
    # one validate_traces call per set (cfg differs), run concurrently through tlc_many
    tl_jobs = []
    for i, (setno, cfg, p) in enumerate(jobs):
        tl_jobs.append(dict(module=os.path.join(TRACE_DIR, "TraceF.tla"), cfg=cfg,
                            workdir=os.path.join(chk.workdir, "tlc%03d" % i), env={"TRACE": p},
                            workers=1, timeout=timeout, xmx="3g"))
    res = vlib.tlc_many(tl_jobs, maxproc=nproc)
    import re
    for (setno, cfg, p), r in zip(jobs, res):
        nlines = sum(1 for ln in open(p) if ln.strip())
        done = [ln for ln in r["prints"] if ln.startswith('<<"TRACE_DONE"')]
        if r["rc"] != 0 or not done:
            raise vlib.ToolError("TLC did not finish trace %s (rc=%s)\n%s" % (p, r["rc"], r["out"][-3000:]))
        m = re.match(r'<<"TRACE_DONE", (\d+),', done[0])
        if int(m.group(1)) != nlines:
            raise vlib.ToolError("TLC consumed %s of %d events of %s" % (m.group(1), nlines, p))
        chk.add_tlc(r, traces=1)
        evs = [json.loads(x) for x in open(p) if x.strip()]
        for e in evs:
            kinds[e["ev"]] = kinds.get(e["ev"], 0) + 1
        if evs:
            chk.sample(dict(set=setno, event=brief(evs[0])))
        for ln in r["prints"]:
            mm = vlib.MISMATCH_RE.match(ln)
            if mm:
                idx = int(mm.group(1))
                all_mism.append(dict(set=setno, trace=p, index=idx, ev=mm.group(2), info=mm.group(3), event=evs[idx - 1]))
    chk.add("events_judged_by_spec", total_events)
    chk.cov.setdefault("event_kinds", {})
    for k, v in kinds.items():
        chk.cov["event_kinds"][k] = chk.cov["event_kinds"].get(k, 0) + v
    for mm in all_mism:
        key = key_of(mm) if key_of else "%s:%s" % (mm["ev"], mm["event"].get("family", ""))
        what = "set %d: %s event #%d disagrees with the FIPS 204 specification: %s | %s" % (
            mm["set"], mm["ev"], mm["index"], mm["info"][:300], json.dumps(brief(mm["event"]))[:400])
        chk.violation(key, what, dict(set=mm["set"], event=mm["event"], spec_says=mm["info"]))
    return total_events, all_mism


# ---------------------------------------------------------------- ACVP anchoring of Layer F
NV = os.path.join(vlib.REPO, "tests/nist_vectors")


def _hx(s):
    return list(bytes.fromhex(s))


def acvp_groups(kind):
    f = os.path.join(NV, "ML-DSA-%s-FIPS204" % kind, "internalProjection.json")
    try:
        return json.load(open(f))["testGroups"]
    except Exception:
        return []


def acvp_spec_trace(path, setno, nkey, nsig, nver, off):
    """Events whose expected results come from the ACVP files, NOT from the library: validating
    them anchors the TLA+ transcription to NIST independently of the code under test."""
    evs = []
    name = "ML-DSA-%d" % setno
    for g in acvp_groups("keyGen"):
        if g["parameterSet"] == name:
            t = g["tests"]
            for i in range(min(nkey, len(t))):
                x = t[(off + i) % len(t)]
                evs.append(dict(ev="KeyGen", xi=_hx(x["seed"]), pk=_hx(x["pk"]), sk=_hx(x["sk"]), acvp_tc=x["tcId"]))
    sg = [(g, x) for g in acvp_groups("sigGen") if g["parameterSet"] == name for x in g["tests"]]
    for i in range(min(nsig, len(sg))):
        g, x = sg[(off * 7 + i * 11) % len(sg)]
        rnd = _hx(x["rnd"]) if "rnd" in x else [0] * 32
        evs.append(dict(ev="SignInternal", sk=_hx(x["sk"]), mp=_hx(x["message"]), rnd=rnd, sig=_hx(x["signature"]), acvp_tc=x["tcId"]))
    sv = [(g, x) for g in acvp_groups("sigVer") if g["parameterSet"] == name for x in g["tests"]]
    for i in range(min(nver, len(sv))):
        g, x = sv[(off * 5 + i) % len(sv)]
        evs.append(dict(ev="VerifyInternal", pk=_hx(g["pk"]), mp=_hx(x["message"]), sig=_hx(x["signature"]),
                        res=bool(x["testPassed"]), acvp_tc=x["tcId"], reason=x.get("reason", "")))
    with open(path, "w") as f:
        for e in evs:
            f.write(json.dumps(e) + "\n")
    return len(evs)


def acvp_anchor(chk, nkey, nsig, nver, off, nproc=6):
    """Run the ACVP-expected events through TraceF.  A mismatch here means the SPECIFICATION (or
    its hash helper) is wrong, which is a tool error, never a violation of the code."""
    jobs, meta = [], []
    for s in (44, 65, 87):
        p = os.path.join(chk.workdir, "acvp_%d.ndjson" % s)
        n = acvp_spec_trace(p, s, nkey, nsig, nver, off)
        if n == 0:
            continue
        jobs.append(dict(module=os.path.join(TRACE_DIR, "TraceF.tla"), cfg=tracef_cfg(chk.workdir, s),
                         workdir=os.path.join(chk.workdir, "acvp%d" % s), env={"TRACE": p}, workers=1, timeout=1800, xmx="3g"))
        meta.append((s, n))
    res = vlib.tlc_many(jobs, maxproc=nproc)
    tot = 0
    for (s, n), r in zip(meta, res):
        done = [ln for ln in r["prints"] if ln.startswith('<<"TRACE_DONE", %d, "mismatches", <<>>>>' % n)]
        if r["rc"] != 0 or not done:
            raise vlib.ToolError("the TLA+ specification disagrees with the ACVP vectors for ML-DSA-%d (specification or helper defect):\n%s"
                                 % (s, "\n".join(r["prints"])[-2000:] or r["out"][-2000:]))
        chk.add_tlc(r)
        tot += n
    chk.leg("specification anchored to ACVP vectors (independent of the code)", events=tot)
    return tot


def acvp_siggen_file(path):
    """Flat list of ACVP sigGen inputs for the harness (it signs them with the library)."""
    out = []
    for g in acvp_groups("sigGen"):
        setno = int(g["parameterSet"].split("-")[-1])
        for x in g["tests"]:
            out.append(dict(set=setno, sk=x["sk"].lower(), message=x["message"].lower(), rnd=x.get("rnd", "00" * 32).lower(), tc=x["tcId"]))
    json.dump(out, open(path, "w"))
    return len(out)
