"""C08 Signature and polynomial encodings are canonical."""
import json
import os

import vlib
from checks import common


def run(tier, seed):
    chk = vlib.Check("C08", "model_checking", tier, seed)
    bindir = vlib.build_harness("checked")
    jobs = []
    for rnd, sd in enumerate([seed] if tier == "quick" else [seed, seed + 101, seed + 202]):
        out = os.path.join(chk.workdir, "c%d" % rnd)
        vlib.drive(bindir, "codec", seed=sd, thorough=1 if tier == "thorough" else 0, out=out, timeout=3600)
        jobs += [(44, os.path.join(out, "codec_generic.ndjson"))] + [(s, os.path.join(out, "codec_%d.ndjson" % s)) for s in (44, 65, 87)]
    mism, _ = common.validate_judged(chk, os.path.join(common.TRACE_DIR, "TraceCodec.tla"), jobs, nproc=12, chunk=150)
    for m in mism:
        e = m["event"]
        chk.violation("codec:" + e["ev"], "set %s: %s (%s) disagrees with Codec.tla: %s" % (m["set"], e["ev"], e.get("what", ""), json.dumps(common.brief(e))[:300]),
                      dict(set=m["set"], event=e))
    chk.leg("trace validation (Codec.tla judge)", mismatches=len(mism),
            inputs="hint sections: every weight profile x every malformation class x every polynomial boundary, random structured sections; "
                   "BitPack/BitUnpack for every (a,b) shape at the range ends and every bit phase; whole signatures; w1Encode; pk strings")
    rel = vlib.build_harness("release")
    mal = common.api_traces(chk, rel, "malformed", nbase=4 if tier == "quick" else 40)
    common.validate_api(chk, {"malformed-%d" % s: p for s, p in mal.items()}, key_of=lambda e: "codec:malformed-signature-accepted")
    common.nohooks_leg(chk, "malformed", nbase=4 if tier == "quick" else 40)
    common.mc_leg(chk, "MC_Codec", tier=tier, workers=12)
    chk.cov["exhaustive"] = False
    return chk.finish()


def replay(path, seed):
    return run("quick", seed)
