"""C11 The public key derived from a private key equals the generated one."""
import vlib
from checks import common


def run(tier, seed):
    chk = vlib.Check("C11", "model_checking", tier, seed)
    bindir = vlib.build_harness("checked")
    ns, nm = (6, 3) if tier == "quick" else (80, 6)
    tr = common.api_traces(chk, bindir, "honest", nseeds=ns, nmsgs=nm)
    n = common.validate_api(chk, tr, key_of=lambda e: "derive:" + e.get("ev", ""))
    chk.leg("trace validation (Layer A judge)", events=n,
            what="bytes of derived pk (from generated and from round-tripped sk) equal the generated pk's; verdicts of generated / round-tripped / derived pk agree on valid, bit-flipped, wrong-mode and wrong-message signatures")
    common.mc_leg(chk, "MC_API", tier=tier)
    chk.cov["exhaustive"] = False
    return chk.finish()


def replay(path, seed):
    return common.replay_api("C11", path)
