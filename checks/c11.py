"""C11 The public key derived from a private key equals the generated one."""
import os

import vlib
from checks import common


def run(tier, seed):
    chk = vlib.Check("C11", "model_checking", tier, seed)
    bindir = vlib.build_harness("checked")
    ns, nm = (6, 3) if tier == "quick" else (80, 6)
    tr = common.api_traces(chk, bindir, "honest", nseeds=ns, nmsgs=nm)
    n = common.validate_api(chk, tr, key_of=lambda e: "derive:" + e.get("ev", ""))
    # rare keys: seeds whose t leaves [0,q) before the final reduction, found by search; on each the derived
    # key must equal the generated one (Layer F judges the few that are recomputed in full)
    sw = os.path.join(chk.workdir, "sw")
    from concurrent.futures import ThreadPoolExecutor
    rel = vlib.build_harness("release")
    nedge = 80000 if tier == "quick" else 2000000
    for prof, bdir in (("release", rel), ("checked", bindir)):
        with ThreadPoolExecutor(max_workers=3) as ex:
            list(ex.map(lambda s: vlib.drive(bdir, "sweeps", sets=s, seed=seed + 1, nkeys=2000, nedge=nedge if prof == "release" else nedge // 4, nedgefull=1, nsamplers=0,
                                             out=os.path.join(sw, prof), timeout=7200), (44, 65, 87)))
        common.validate_f(chk, {s: os.path.join(sw, prof, "sweeps_%d.ndjson" % s) for s in (44, 65, 87)}, nproc=6, chunks_per_set=2,
                          key_of=lambda m: "derive-rare:" + m["ev"])
    chk.leg("rare-key search", edge_seeds_searched_per_set=nedge)
    n += common.behaviours_leg(chk, rel, 90 if tier == "quick" else 1500)
    chk.leg("trace validation (Layer A judge)", events=n,
            what="bytes of derived pk (from generated and from round-tripped sk) equal the generated pk's; verdicts of generated / round-tripped / derived pk agree on valid, bit-flipped, wrong-mode and wrong-message signatures")
    common.nohooks_leg(chk, "honest", nseeds=2, nmsgs=2)
    common.mc_leg(chk, "MC_API")
    chk.cov["exhaustive"] = False
    return chk.finish()


def replay(path, seed):
    return common.replay_api("C11", path)
