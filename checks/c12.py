"""C12 RNG failure is reported, and all drawn randomness is used."""
import os

import vlib
from checks import common


def run(tier, seed):
    chk = vlib.Check("C12", "fault_enumeration", tier, seed)
    bindir = vlib.build_harness("checked")
    ns = 1 if tier == "quick" else 8
    tr = common.api_traces(chk, bindir, "rngfaults", nsweeps=ns)
    n = common.validate_api(chk, tr, key_of=lambda e: "rng:%s:%s" % (e.get("ev", ""), e.get("fault", e.get("entry", ""))))
    rel = vlib.build_harness("release")
    # the OS generator itself made to fail (seccomp filter on getrandom, own process): the convenience entry points must
    # return an error too - the one generator a caller cannot replace
    osdir = os.path.join(chk.workdir, "osrng")
    vlib.drive(rel, "api", scenario="osrngfail", out=osdir)
    ostr = os.path.join(osdir, "api_osrngfail_0.ndjson")
    n += common.validate_api(chk, {"osrngfail": ostr}, key_of=lambda e: "rng:os:%s" % e.get("entry", ""))
    chk.cov["os_rng_fault_simulated"] = not any('"Note"' in ln for ln in open(ostr))
    n2 = common.behaviours_leg(chk, rel, 120 if tier == "quick" else 2000)
    import json
    faults = set()
    for p in tr.values():
        for ln in open(p):
            e = json.loads(ln)
            if e.get("fault", "none") != "none":
                faults.add((e["ev"], e.get("mode", ""), e["fault"], json.dumps(e.get("rnglog"))))
    chk.cov["evaluations"] = n + n2
    chk.cov["distinct_nontrivial"] = len(faults) * 3
    chk.cov["rule"] = ("fault point x fault kind x entry point x set: error before writing, error after writing 0/1/16/31/32 bytes, "
                       "infallible RNG methods panic; entry points keygen, sign, hash-sign (3 pre-hash functions); distinct = distinct (entry, mode, fault, request log) x 3 sets; "
                       "plus 256-bit draw sweeps per entry point and OS-RNG freshness; plus spec-generated behaviours with faults")
    chk.leg("trace validation (Layer A judge)", events=n + n2)
    common.nohooks_leg(chk, "rngfaults", profile="checked", nsweeps=1)
    common.mc_leg(chk, "MC_API", tier=tier)
    # ErrorCreatesNothing and the RNG discipline without bounds: TLAPS
    common.tlaps_leg(chk)
    chk.cov["exhaustive"] = True
    chk.cov["exhaustive_note"] = "every (fault kind x entry point x set) of the model; one RNG request per operation (one fault point); the constant-time test entry point makes two and is faulted at both"
    return chk.finish()


def replay(path, seed):
    return common.replay_api("C12", path)
