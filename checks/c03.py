"""C03 Signatures are byte-identical to FIPS 204 Sign for the drawn rnd."""
import os

import vlib
from checks import common


def run(tier, seed):
    chk = vlib.Check("C03", "model_checking", tier, seed)
    bindir = vlib.build_harness("checked")
    nfull, nfactor, allctx, nacvp = (3, 28, 0, 1) if tier == "quick" else (18, 56, 1, 8)
    acvp = os.path.join(chk.workdir, "acvp_siggen.json")
    common.acvp_siggen_file(acvp)
    traces = {}
    for s in (44, 65, 87):
        vlib.drive(bindir, "sign", sets=s, seed=seed, nfull=nfull, nfactor=nfactor, allctx=allctx, acvp=acvp, nacvp=nacvp,
                   acvpoff=seed % 10, nhunt=6000 if tier == "quick" else 80000, nhuntfull=2 if tier == "quick" else 12, out=chk.workdir)
        traces[s] = os.path.join(chk.workdir, "sign_%d.ndjson" % s)
    n, mism = common.validate_f(chk, traces, nproc=12, key_of=lambda m: "sign:" + m["ev"])
    # the same external calls on accepted private keys the library did not produce, in the RELEASE build (code under
    # cfg(not(debug_assertions)) exists only there) and, one set per run, in a build for the host CPU
    relb = vlib.build_harness("release")
    rdir = os.path.join(chk.workdir, "rel")
    for s in (44, 65, 87):
        vlib.drive(relb, "sign", sets=s, seed=seed + 3, nfull=0, nfactor=0, out=rdir)
    nr, _ = common.validate_f(chk, {s: os.path.join(rdir, "sign_%d.ndjson" % s) for s in (44, 65, 87)}, nproc=9, key_of=lambda m: "sign-release:" + m["ev"])
    nat = vlib.build_harness("release", native=True)
    ndir = os.path.join(chk.workdir, "native")
    nset = (44, 65, 87)[(seed + 1) % 3]
    vlib.drive(nat, "sign", sets=nset, seed=seed + 5, nfull=2, nfactor=0, nhunt=1500, nhuntfull=1, out=ndir)
    nn, _ = common.validate_f(chk, {nset: os.path.join(ndir, "sign_%d.ndjson" % nset)}, nproc=6, key_of=lambda m: "sign-native:" + m["ev"])
    n += nr + nn
    common.acvp_anchor(chk, 0, 1 if tier == "quick" else 4, 0, seed)
    # the whole specification (hashing, samplers, codecs, rejection loop) on ring degree 8: staged = literal forms, Verify(Sign) = TRUE
    common.mc_leg(chk, "MC_SmallN", tier=tier, coverage=False, must_print=["REJECT1 taken", "REJECT2 taken"])
    # shape of the challenge for EVERY hash output at reduced size (exactly tau coefficients +-1, unbiased), both eta
    common.mc_leg(chk, "MC_Sampling")
    common.mc_leg(chk, "MC_Sampling", cfg=os.path.join(common.MC_DIR, "MC_Sampling_eta4.cfg"))
    # samplers used by signing (ExpandMask, SampleInBall) at scale, rarest cases judged by TLC
    sw = os.path.join(chk.workdir, "sw")
    from concurrent.futures import ThreadPoolExecutor
    rel = vlib.build_harness("release")
    with ThreadPoolExecutor(max_workers=3) as ex:
        list(ex.map(lambda s: vlib.drive(rel, "sweeps", sets=s, seed=seed, nkeys=0, nsamplers=4000 if tier == "quick" else 100000, nrare=1 if tier == "quick" else 6, out=sw), (44, 65, 87)))
    n2, _ = common.validate_f(chk, {s: os.path.join(sw, "sweeps_%d.ndjson" % s) for s in (44, 65, 87)}, nproc=6, chunks_per_set=2, key_of=lambda m: "sampler:" + m["event"].get("fn", m["ev"]))
    n += n2
    chk.leg("trace validation (Layer F judge)", events=n, full_recomputations_per_set=nfull + nacvp,
            factoring_grid="(mode x |ctx| x |M|): every |ctx| in 0..255 with an empty, a one-byte and a pre-hashed message in both tiers; all four modes per length in thorough" )
    chk.cov["exhaustive"] = False
    chk.assumptions += ["SHAKE/SHA-2 computed by the sha2/sha3 crates through the hash helper",
                        "Sign = Sign_internal o FormatMsg (FIPS 204 Algorithms 2 and 4), used to carry the (mode, ctx, M) grid through the deprecated internal interface"]
    return chk.finish()


def replay(path, seed):
    return vlib.replay_f("C03", path)
