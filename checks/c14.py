"""C14 Secret-independent execution in constant-time test mode."""
import json
import os
import random
import subprocess
from concurrent.futures import ThreadPoolExecutor

import vlib
from checks import common

KERNELS = ["infinity_norm", "center_mod", "decompose", "make_hint", "power2round", "bit_pack", "ntt", "inv_ntt", "mat_vec_mul", "to_mont", "reductions", "half_byte", "is_in_range"]


def known_variant_instructions(bindir):
    """File offsets of the instructions guarded by the recorded compiler-introduced branch in the inlined
    ML-DSA-44 decompose (`xr1 ^= ((43 - xr1) >> 31) & xr1` compiled to `cmp $0x2c; jge`), found by its
    code pattern in the probe binary.  Returns (offsets, mark_offset, n_sites)."""
    import re
    probe = os.path.join(bindir, "ctprobe")
    dis = subprocess.run(["objdump", "-d", "--no-show-raw-insn", probe], stdout=subprocess.PIPE, text=True).stdout.splitlines()
    ins = []
    for ln in dis:
        m = re.match(r"^\s*([0-9a-f]+):\s+(.*)$", ln)
        if m:
            ins.append((int(m.group(1), 16), m.group(2).strip()))
    offs, sites = [], 0
    for i, (addr, text) in enumerate(ins):
        if re.match(r"cmp\s+\$0x2c,", text) and i + 1 < len(ins) and ins[i + 1][1].startswith("jge"):
            # the multiply-shift by 11275 must be just above: this is the decompose corner, nothing else
            if not any("$0x2c0b" in t for _, t in ins[max(0, i - 8):i]):
                continue
            tm = re.match(r"jge\s+([0-9a-f]+)", ins[i + 1][1])
            if not tm:
                continue
            target = int(tm.group(1), 16)
            between = [a for a, _ in ins[i + 2:i + 12] if a < target]
            if between and target - addr < 48:
                offs += between
                sites += 1
    nm = subprocess.run(["nm", probe], stdout=subprocess.PIPE, text=True).stdout
    mk = [int(l.split()[0], 16) for l in nm.splitlines() if "ctprobe4mark" in l]
    return offs, (mk[0] if mk else None), sites


def lackey(bindir, args, infile, dump=None, skip=""):
    """Run the probe under valgrind-lackey and reduce its (instruction, load/store address) stream to
    block digests on the fly (the raw trace, millions of lines, is never stored)."""
    probe = os.path.join(bindir, "ctprobe")
    drive = os.path.join(vlib.HARNESS, "target", "release", "drive")      # the trace reducer (built by run() before any observation)
    cmd = "valgrind --tool=lackey --trace-mem=yes --log-fd=2 %s %s %s 2>&1 >/dev/null | %s cthash block=4096%s%s" % (
        probe, " ".join(args), infile, drive, (" dump=%d" % dump) if dump is not None else "", (" skip=" + skip) if skip else "")
    p = subprocess.run(["bash", "-c", cmd], stdout=subprocess.PIPE, stderr=subprocess.PIPE, text=True, timeout=1800, env={"PATH": os.environ["PATH"], "LC_ALL": "C"})
    if p.returncode != 0:
        raise vlib.ToolError("valgrind/cthash failed: " + p.stderr[-500:])
    return p.stdout if dump is not None else json.loads(p.stdout)


def run(tier, seed):
    chk = vlib.Check("C14", "exploration", tier, seed)
    # the repository's own release profile (opt-level "s", LTO, one codegen unit): the compiled artefact is what is observed
    bindir = vlib.build_harness("ctrel")
    rnd = random.Random(seed)
    nrng, nvec = (4, 4) if tier == "quick" else (24, 24)
    indir = os.path.join(chk.workdir, "in")
    os.makedirs(indir, exist_ok=True)
    jobs = []  # (group, label, args, file)

    def mkfile(name, data):
        p = os.path.join(indir, name)
        open(p, "wb").write(data)
        return p
    rngs = [("all-00", bytes(64)), ("all-FF", b"\xff" * 64), ("11..", b"\x11" * 64)]
    while len(rngs) < nrng:
        k = len(rngs)
        rngs.append(("random-%d" % k, bytes(rnd.randrange(256) for _ in range(64))) if k % 2 else ("single-bit-%d" % k, bytes([1 << (k % 8)] + [0] * 63)))
    # rare keys of the constant-time test mode (t leaves [0,q) before the final reduction), found by search with
    # the harness's own CTEST samplers: code that special-cases "already in range" takes another path on these
    edge = {44: [], 65: [], 87: []}
    rel = vlib.build_harness("release")
    for ln in vlib.drive(rel, "sweeps", seed=seed, ctedge=30000 if tier == "quick" else 400000, want=1 if tier == "quick" else 4).splitlines():
        if ln.startswith("CTEDGE"):
            _, s, score, hx = ln.split()
            edge[int(s)].append(("edge-key(score %s)" % score, bytes.fromhex(hx) + b"\x5a" * 32))
    # RNG outputs whose (single) signing attempt samples a mask of special shape -- a polynomial that starts with a zero
    # coefficient (1 in 65 000 - 210 000), else zero coefficients somewhere -- found by running the real entry point natively
    # with the expand_mask_out hook event
    for ln in vlib.drive(rel, "sweeps", seed=seed, ctpipe=30000 if tier == "quick" else 1200000, want=1 if tier == "quick" else 3, timeout=3600).splitlines():
        if ln.startswith("CTPIPE"):
            _, s, score, hx = ln.split()
            edge[int(s)].append(("special-mask(score %s)" % score, bytes.fromhex(hx)))
    chk.cov["ctest_edge_seeds"] = {str(k): len(v) for k, v in edge.items()}
    # ExpandMask alone: ordinary rho'' against rho'' whose first mask polynomial starts with a zero coefficient
    masks = {18: [], 20: []}
    for ln in vlib.drive(rel, "sweeps", seed=seed, ctmask=8000000 if tier == "quick" else 64000000, want=1 if tier == "quick" else 3).splitlines():
        if ln.startswith("CTMASK"):
            _, bits, hx = ln.split()
            masks[int(bits)].append(("first coefficient zero", bytes.fromhex(hx)))
    for bits in (18, 20):
        if not masks[bits]:
            raise vlib.ToolError("no ExpandMask input with a leading zero coefficient found (%d bits)" % bits)
        for i, (label, data) in enumerate([(l, d[:64]) for l, d in rngs[:nrng]] + masks[bits]):
            jobs.append(("mask-%d" % bits, label, ["mask", str(bits)], mkfile("m%02d_%d.bin" % (i, bits), data)))
    for s in (44, 65, 87):
        for i, (label, data) in enumerate(rngs + edge[s]):
            jobs.append(("dudect-%d" % s, label, ["dudect", str(s)], mkfile("r%02d_%d.bin" % (i, s), data)))
    # builds WITH debug assertions and overflow checks (the repository's dev profile, opt-level 1): the self-checks are code too.
    # RNG outputs on which the entry point panics there (recorded finding of C13) are left out: there is no trace to compare.
    devdir = vlib.build_harness("ctdev")
    devprobe = os.path.join(devdir, "ctprobe")
    ndev = 3 if tier == "quick" else 8
    for s in (44, 65, 87):
        taken = 0
        for i, (label, data) in enumerate(rngs + edge[s]):
            if taken >= ndev:
                break
            f = mkfile("d%02d_%d.bin" % (i, s), data)
            if subprocess.run([devprobe, "dudect", str(s), f], stdout=subprocess.DEVNULL, stderr=subprocess.DEVNULL).returncode != 0:
                continue
            jobs.append(("dudect-debug-assertions-%d" % s, label, ["dudect", str(s)], f, devdir))
            taken += 1
    q = 8380417
    def le(vals):
        return b"".join(int(v).to_bytes(4, "little", signed=True) for v in vals)
    vecs = [("all 0", le([0] * 256)), ("all -1", le([-1] * 256)), ("all +1", le([1] * 256)),
            ("alternating 0 / q-1", le([(q - 1) if i % 2 else 0 for i in range(256)])),
            ("first half 0, second half large", le([0] * 128 + [4190208 - i for i in range(128)])),
            ("all (q-1)/2", le([(q - 1) // 2] * 256)), ("all -(q-1)/2", le([-((q - 1) // 2)] * 256))]
    nvec = max(nvec, len(vecs) + 1)
    while len(vecs) < nvec:
        vecs.append(("random-%d" % len(vecs), bytes(rnd.randrange(256) for _ in range(1024))))
    for k in KERNELS:
        for i, (label, data) in enumerate(vecs):
            f = mkfile("v%02d_%s.bin" % (i, k[:6].ljust(6, "_")), data)
            jobs.append(("kernel-" + k, label, ["kernel", k], f))
            # the kernels' self-checks (debug assertions) are code too: same inputs in the dev-profile build
            jobs.append(("kernel-debug-assertions-" + k, label, ["kernel", k], f, devdir))
    # a recorded finding (known_findings.json): the compiler turned the branch-free corner of the ML-DSA-44
    # decompose into a conditional branch in some inlined copies.  Its guarded instructions are located by
    # their code pattern and left out of the observation, so that every OTHER difference is still reported.
    offs, mark_off, sites = known_variant_instructions(bindir)
    skip = ""
    kf = chk.known_match("ct:decompose44-corner-branch")
    if offs and kf is not None and mark_off is not None:
        probe0 = lackey(bindir, jobs[0][2], jobs[0][3])
        base = ((int(probe0["first_i"], 16) - mark_off) >> 12) << 12
        skip = ",".join("%08x" % (base + o) for o in offs)
        # show that the finding is still there: the same two inputs differ without the exclusion
        j44 = [j for j in jobs if j[0] == "dudect-44"][:2]
        a, b = lackey(bindir, j44[0][2], j44[0][3]), lackey(bindir, j44[1][2], j44[1][3])
        if a["blocks"] != b["blocks"]:
            vlib.log("KNOWN-FINDING: property=C14 %s (%d compiled sites)" % (kf.get("what", ""), sites))
            chk.known_hits.append("ct:decompose44-corner-branch")
        else:
            skip = ""   # it no longer manifests: compare everything exactly
    chk.cov["known_variant_sites"] = sites
    with ThreadPoolExecutor(max_workers=14) as ex:
        obs = list(ex.map(lambda j: lackey(j[4], j[2], j[3]) if len(j) > 4 else lackey(bindir, j[2], j[3], skip=skip), jobs))
    trace = os.path.join(chk.workdir, "ct.ndjson")
    lines = 0
    with open(trace, "w") as f:
        for (group, label, args, infile, *_), o in zip(jobs, obs):
            f.write(json.dumps(dict(ev="CtRun", group=group, input=label, nlines=o["nlines"], blocks=o["blocks"])) + "\n")
            lines += o["nlines"]
        # ImplCT skeleton: one rejection-loop attempt in CTEST mode for every secret (not under valgrind)
        sk = vlib.drive(bindir, "ctskel", seed=seed, n=8 if tier == "quick" else 200)
        for ln in sk.splitlines():
            if ln.startswith("{"):
                f.write(ln + "\n")
    cfg = os.path.join(chk.workdir, "TraceCT.cfg")
    vlib.write_cfg(cfg, "", "SPECIFICATION Spec\nVIEW View\nCHECK_DEADLOCK FALSE")
    r = vlib.tlc(os.path.join(common.TRACE_DIR, "TraceCT.tla"), cfg, os.path.join(chk.workdir, "tlc"), env={"TRACE": trace}, workers=1, timeout=1800)
    d = vlib.parse_done(r["out"])
    evs = [json.loads(x) for x in open(trace) if x.strip()]
    if r["rc"] != 0 or d is None or d["n"] != len(evs):
        raise vlib.ToolError("TraceCT did not finish:\n" + r["out"][-3000:])
    chk.add_tlc(r, traces=1)
    infos = vlib.mismatch_infos(r["out"])
    for idx in d["lists"].get("mismatches", []):
        if len(chk.violations) >= 8:
            # every reported difference costs four more observations (reproduce, then locate); a tree on which everything
            # differs is reported by its first eight
            chk.cov["mismatches_not_analysed"] = chk.cov.get("mismatches_not_analysed", 0) + 1
            continue
        e = evs[idx - 1]
        info = infos.get(("MISMATCH", idx), "")
        replay = dict(event={k: v for k, v in e.items() if k != "blocks"}, spec_says=info)
        if e["ev"] == "CtRun":
            import re
            m = re.search(r"first_differing_block \|-> (\d+)", info)
            blk = int(m.group(1)) - 1 if m else 0
            ref = next(j for j in jobs if j[0] == e["group"])
            me = next(j for j in jobs if j[0] == e["group"] and j[1] == e["input"])
            bd, sk_ = (me[4], "") if len(me) > 4 else (bindir, skip)
            # a difference must REPRODUCE: both inputs are observed a second time (a single unexplained transient difference was
            # seen once in ~2000 observations under heavy machine load; a property of the code shows on every observation)
            if lackey(bd, ref[2], ref[3], skip=sk_)["blocks"] == lackey(bd, me[2], me[3], skip=sk_)["blocks"]:
                chk.cov["transient_observation_differences"] = chk.cov.get("transient_observation_differences", 0) + 1
                continue
            a = lackey(bd, ref[2], ref[3], dump=blk, skip=sk_).splitlines()
            b = lackey(bd, me[2], me[3], dump=blk, skip=sk_).splitlines()
            diff = [(i, x, y) for i, (x, y) in enumerate(zip(a, b)) if x != y][:6]
            replay.update(block=blk, input_a=ref[1], input_b=me[1], first_differing_lines=diff,
                          reproduce="valgrind --tool=lackey --trace-mem=yes %s/ctprobe %s <file>" % (os.path.relpath(bd, vlib.VERIF), " ".join(me[2])))
        chk.violation("ct:" + e.get("group", "skeleton"), "execution trace depends on the secret input: group %s, inputs %s: %s" % (
            e.get("group", "skeleton"), e.get("input", ""), info[:300]), replay)
    groups = sorted({j[0] for j in jobs})
    chk.cov["evaluations"] = len(jobs)
    chk.cov["distinct_nontrivial"] = len(jobs) - len(groups)      # every run beyond the first of its group is one pairwise comparison
    chk.cov["rule"] = ("valgrind-lackey (instruction address, load/store address) streams of the release-profile binary, cut into 4096-line blocks and compared in lockstep "
                       "within groups that share all public inputs; groups: dudect_keygen_sign_with_rng per parameter set (RNG output varies), and each secret-handling kernel alone "
                       "(coefficient vector varies: all-zero, all-ones, alternating extremes, random), ExpandMask alone (rho'' varies, including inputs whose mask starts with a zero coefficient), "
                       "and the entry point again in a build with debug assertions and overflow checks (the repository's dev profile); RNG outputs include searched rare ones "
                       "(keys whose t leaves [0,q) before the last reduction, masks with zero coefficients); non-trivial = a run compared against the first run of its group")
    chk.cov["trace_lines_observed"] = lines
    chk.cov["groups"] = groups
    chk.sample(dict(group=jobs[0][0], input=jobs[0][1], nlines=obs[0]["nlines"], first_blocks=obs[0]["blocks"][:3]))
    chk.cov["exhaustive"] = False
    chk.assumptions += ["decides the property for the compiled artefacts of this toolchain: the repository's release profile (all groups) and its dev profile (entry point only)",
                        "valgrind-lackey observes addresses, not operand-dependent instruction timing (e.g. division latency)",
                        "sampled over secrets: a trace comparison cannot be exhaustive"]
    return chk.finish()


def replay(path, seed):
    return run("quick", seed)
